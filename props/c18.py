"""C18 - topology diagnosis and root repair tell the truth about any parent table.

Three machines, one per run (chosen by the seed):

 dsu    a history of union / is_same_set / find_parent / validate_node calls on one
        DisjointSetUnion, compared step by step with a naive partition;
 table  a parent table over ids 0..n-1 evolving by add / set_parent / pop edits (forests,
        cycles and self-loops all arise); after every edit the four checkers are called
        under a deterministic line-event budget and compared with brute force;
 roots  a multi-root forest with an id base, stored on the simulated disk and read back
        through the stream stack with fix_roots in {False, "somas", "nearest"}, plus the
        table-level repair functions on copies.

Fault kinds: benign stream schedules under the file reads (short reads, tiny buffers); the
step budget turns a non-terminating checker into a replayable `hang` event.
"""

from __future__ import annotations

import copy

import numpy as np

from models import table_model
from simkit import shrink
from simkit.prng import Prng
from simkit.world import StepBudgetExceeded, StreamPlan, World, call_with_budget

PROP = "C18"
LEVEL = "exploration"
TIERS = {"quick": 4800, "thorough": 160000}
LOCALE_VARIES = True  # three of the sixteen shards run in a non-UTF-8 locale (simkit/runner.py: hashseed_for)
RULE = (
    "one run = one of three machines (plus, in ~2% of the runs, `big`: 1500-3000 elements chained by unions in an order "
    "that builds a deep forest unless union balances, then queried; and the checkers on a sorted neurite of that many "
    "nodes with one late side branch). dsu: DisjointSetUnion(N<=60) under 5-60 union/same/find/validate steps, "
    "the partition read from a deep copy (so path compression by the oracle never hides history) compared with a "
    "naive partition after every step. table: a parent table over <= 14 ids under 3-30 add/set_parent/pop edits "
    "(any node may get any parent or none: forests, cycles, self-loops); after every edit is_single_root, "
    "has_cyclic, is_sorted and is_bifurcate(exclude_root on/off) must equal brute force and return within "
    "300000 traced line events. roots: a forest with 1-5 roots, id base in {0,1,17,1000}, sorted or unsorted rows, "
    "written to the simulated disk and read 1-4 times with fix_roots off/'somas'/'nearest' x sort_nodes x "
    "reset_index through read_swc / Tree.from_swc under generated stream schedules, plus mark_roots_as_somas / "
    "link_roots_to_nearest / reset_index on frames. Distinct = distinct event-log digest; non-trivial = >= 3 steps "
    "(dsu/table) with at least one union joining two blocks / one edit creating a cycle or a second root, or "
    "(roots) a forest with >= 2 roots."
)
STATE_MEASURE = "distinct parent tables reached (table machine), distinct partitions (dsu machine), distinct (roots, base, mode) (roots machine)"
COMPONENTS = {
    "real": ["swcgeom.utils.dsu", "swcgeom.core.swc_utils.checker", "swcgeom.core.swc_utils.base (get_dsu, traverse)",
             "swcgeom.core.swc_utils.normalizer", "swcgeom.core.swc_utils.io (read_swc)", "swcgeom.utils.file",
             "pandas", "numpy", "CPython io stack"],
    "stub": [],
    "replaced_leaf_functions": ["builtins.open/io.open (simulated disk + stream stack)"],
}
ASSUMPTIONS = [
    "tables use ids base..base+n-1 (base 0, 1, 3, 100 or -20; never containing -1), listed by id or in a generated row order (is_sorted is judged only when listed by id), every parent is -1 or an id of the table (the statement's 'every function "
    "from nodes to {none} + nodes'); connected = one weakly connected component; a self-loop is a cycle",
    "is_bifurcate(exclude_root=True) is judged as 'every node that has a parent has at most two children'",
    "in forest files the first row is the first root; rows may carry their ids in any order and the first root need not carry the smallest id (the id one below it then belongs to a leaf, because re-basing maps it to the no-parent marker); non-first roots may be anywhere; coordinates are distinct "
    "multiples of 0.25 so the text format is exact",
    "fix_roots=False is read with sort_nodes=False (sorting asserts a single root by contract)",
    "which node 'nearest' links a root to is not judged, only that the result is single-rooted, keeps the first "
    "root, every original edge and every attribute",
]
BUDGET = 300000


# ---------------------------------------------------------------------------
# generation


def gen_dsu(w: Prng) -> dict:
    n = w.choice([1, 2, 3, 5, 8, 14, 30, 60])
    steps = []
    for _ in range(w.randint(5, 60)):
        k = w.weighted([("union", 6), ("same", 3), ("find", 2), ("validate", 1)])
        if k == "validate":
            steps.append({"k": k, "v": w.randint(-2, n + 1)})
        elif k == "find":
            steps.append({"k": k, "a": w.below(64)})
        else:
            # chain-building unions (a, a+1) produce the deep structures path compression is for
            a = w.below(64)
            b = a + 1 if w.chance(0.3) else w.below(64)
            steps.append({"k": k, "a": a, "b": b})
    rp = w.stream("repeat_pairs")
    for i, st in enumerate(steps):
        # the same ordered pair asked about and united again later, with other unions in between (ask, re-root one
        # side elsewhere, then unite the pair that was asked about)
        earlier = [e for e in steps[:i] if e["k"] in ("union", "same")]
        if st["k"] in ("union", "same") and earlier and rp.chance(0.3):
            e = earlier[-1 - rp.below(min(3, len(earlier)))]
            st["a"], st["b"] = (e["a"], e["b"]) if rp.chance(0.8) else (e["b"], e["a"])
    out = []
    for st in steps:
        if st["k"] == "union" and rp.chance(0.15):
            # the idiom `if not is_same_set(a, b): ... union_sets(a, b)` with other unions in between that touch
            # one of the two sides
            out.append({"k": "same", "a": st["a"], "b": st["b"]})
            for _ in range(rp.randint(1, 2)):
                side = st["a"] if rp.chance(0.5) else st["b"]
                other = rp.below(64)
                out.append({"k": "union", "a": other, "b": side} if rp.chance(0.5) else {"k": "union", "a": side, "b": other})
        out.append(st)
    return {"n": n, "steps": out}


def gen_table(w: Prng) -> dict:
    style = w.weighted([("grown", 5), ("function", 4), ("reversed_chain", 1), ("ring", 2)])
    if style == "grown":
        n0 = w.choice([1, 1, 2, 3, 5])
        init = [-1] + [w.below(i) if w.chance(0.8) else -1 for i in range(1, n0)]
    elif style == "function":
        # a uniformly drawn function nodes -> {none} + nodes: the statement's own quantifier space
        n0 = w.randint(2, 8)
        init = [w.randint(-1, n0 - 1) for _ in range(n0)]
    elif style == "ring":
        # one cycle through all rows (every row's parent is the next / previous / the row k further on), optionally
        # with a tail hanging on it: connected, cyclic, and the longest possible way for labels to travel
        n0 = w.randint(3, 14)
        m = w.choice([n0, n0, max(3, n0 - 2)])  # ring size
        step = w.choice([1, 1, m - 1, 3 if m % 3 else 1])
        init = [(i + step) % m for i in range(m)] + [w.below(m + j) for j in range(n0 - m)]
    else:
        # children before parents: the worst case for pointer jumping
        n0 = w.randint(3, 14)
        init = [i + 1 for i in range(n0 - 1)] + [-1]
    steps = []
    for _ in range(w.randint(3, 30)):
        k = w.weighted([("add", 5), ("set", 7), ("pop", 1)])
        if k == "add":
            steps.append({"k": k, "p": None if w.chance(0.15) else w.below(64)})
        elif k == "set":
            steps.append({"k": k, "i": w.below(64), "p": None if w.chance(0.2) else w.below(64)})
        else:
            steps.append({"k": k})
    # the order in which the rows of the table are listed (ids stay 0..n-1): None = by id
    rowkeys = [w.below(1000) for _ in range(14)] if w.chance(0.4) else None
    # the ids of the table are base, base+1, ...: any integers, as long as -1 (the marker) is not among them
    idbase = w.choice([0, 0, 0, 0, 1, 3, 100, -20])
    return {"init": init, "steps": steps, "rowkeys": rowkeys, "idbase": idbase}


def gen_stream(rng: Prng) -> dict:
    d: dict = {}
    if rng.chance(0.6):
        d["chunks"] = [rng.choice([1, 1, 2, 3, 5, 7, 17, 64, 4096]) for _ in range(rng.randint(1, 4))]
    if rng.chance(0.5):
        d["buffer_size"] = rng.choice([1, 2, 3, 7, 16, 61, 512, 8192])
    if rng.chance(0.5):
        d["text_chunk"] = rng.choice([1, 2, 5, 64, 8192])
    return d


def gen_roots(w: Prng, sp: Prng) -> dict:
    n = w.choice([2, 3, 4, 6, 9, 14, 22, 30])
    k = min(n, w.weighted([(1, 1), (2, 5), (3, 4), (4, 2), (5, 2)]))
    # which rows (other than row 0) are roots
    others = sorted(w.sample(list(range(1, n)), k - 1))
    pid = [-1] * n
    for i in range(1, n):
        if i in others:
            continue
        pid[i] = w.below(i)
    if w.chance(0.35) and n > 2:
        # unsorted rows: permute rows 1..n-1 (row 0 stays the first root)
        perm = [0] + [1 + p for p in w.permutation(n - 1)]  # new row of old row i
        new = [-1] * n
        for old in range(n):
            new[perm[old]] = -1 if pid[old] == -1 else perm[pid[old]]
        pid = new
    pts = w.permutation(4 * n)[:n]
    forest = {
        "pid": pid,
        "type": [w.choice([0, 1, 2, 3, 4, 5]) for _ in range(n)],
        "x": [0.25 * p for p in pts],
        "y": [0.25 * w.randint(-40, 40) for _ in range(n)],
        "z": [0.25 * w.randint(-40, 40) for _ in range(n)],
        "r": [0.25 * w.randint(1, 12) for _ in range(n)],
        "base": w.choice([0, 1, 1, 17, 1000]),
        # id of row i is base + sig[i]: rows need not be listed in ascending id order (row 0 keeps the base)
        "sig": None,
    }
    sk = w.weighted([("asc", 13), ("perm_keep0", 4), ("perm_any", 3)])
    if sk == "perm_keep0":
        forest["sig"] = [0] + [1 + q for q in w.permutation(n - 1)]
    elif sk == "perm_any":
        # the first listed root need not carry the smallest id (a fragment numbered before the soma)
        sig = w.permutation(n)
        if sig[0] > 0:
            # re-basing on the first root sends id (root - 1) to -1, the "no parent" marker: a file in which
            # that id is somebody's parent is ambiguous for ANY re-basing reader, so that id goes to a leaf
            has_child = set(p for p in pid if p != -1)
            leaves = [i for i in range(1, n) if i not in has_child]
            holder = sig.index(sig[0] - 1)
            if holder in has_child and leaves:
                leaf = leaves[w.below(len(leaves))]
                sig[holder], sig[leaf] = sig[leaf], sig[holder]
            elif holder in has_child:
                sig = sorted(sig)
        forest["sig"] = sig
    ld = w.stream("lead")
    if sk == "asc" and ld.chance(0.25):
        # the first listed root need not be the first ROW: samples of a later root's tree may be listed before it
        # (a fragment traced first, its own root further down). "The first root" is the first parentless row.
        root_of = list(range(n))
        for i in range(n):
            j = i
            while pid[j] != -1:
                j = pid[j]
            root_of[i] = j
        cands = [i for i in range(n) if pid[i] != -1 and root_of[i] != 0]
        if cands:
            lead = ld.sample(cands, min(len(cands), ld.choice([1, 1, 2])))
            order = lead + [i for i in range(n) if i not in lead]  # new row -> old row
            new_row = {old: new for new, old in enumerate(order)}
            for key in ("type", "x", "y", "z", "r"):
                forest[key] = [forest[key][o] for o in order]
            forest["pid"] = [(-1 if pid[o] == -1 else new_row[pid[o]]) for o in order]
            forest["lead"] = len(lead)
    bb = w.stream("bigbase")
    if bb.chance(0.12):
        # sample numbers beyond 2**53: distinct as integers, not as double-precision floats
        forest["base"] = bb.choice([2**53 + 1, 2**53 + 2**20 + 1, 2**60 + 7])
    reads = []
    for _ in range(w.randint(1, 4)):
        fix = w.choice([False, "somas", "nearest"])
        reads.append({
            "api": w.weighted([("read_swc", 5), ("tree", 3), ("table", 3)]),
            "fix": fix,
            "sort": bool(fix) and w.chance(0.3),
            "reset": w.chance(0.8),
            "stream": gen_stream(sp) if w.chance(0.6) else {},
        })
    return {"forest": forest, "reads": reads}


def generate(rng: Prng, tier: str) -> dict:
    w = rng.stream("workload")
    mode = w.weighted([("dsu", 3), ("table", 5), ("roots", 4), ("big", 0.25)])
    p: dict = {"prop": PROP, "mode": mode, "config": "fault_free"}
    if mode == "dsu":
        p.update(gen_dsu(w))
    elif mode == "big":
        # thousands of elements: union histories that would build a deep forest without balancing, and the
        # checkers on a long id-sorted neurite with one late side branch near its start
        p.update({"n": w.choice([1500, 3000]), "pattern": w.choice(["new_first", "old_first", "pairs_then_merge"]),
                  "branch_at": w.randint(1, 20)})
    elif mode == "table":
        p.update(gen_table(w))
    else:
        p.update(gen_roots(w, rng.stream("stream.chunk")))
        if any(r["stream"] for r in p["reads"]):
            p["config"] = "faulting"
    return p


# ---------------------------------------------------------------------------
# machines


class Bad(Exception):
    def __init__(self, tag, op, detail):
        super().__init__(detail)
        self.v = {"tag": tag, "op": op, "detail": str(detail)[:400]}


def guarded(op: str, fn, budget: int = 0):
    """Call a library function under the step budget; a hang or an exception is a violation."""
    budget = budget or BUDGET
    try:
        return call_with_budget(fn, budget)
    except StepBudgetExceeded:
        raise Bad("hang", op, f"{op} did not return within {budget} line events") from None
    except Bad:
        raise
    except Exception as e:  # noqa: BLE001
        raise Bad("raised", f"{op}/{type(e).__name__}", f"{type(e).__name__}: {e}") from None


def run_dsu(program: dict, world: World, out: dict):
    from swcgeom.utils import DisjointSetUnion

    n = program["n"]
    dsu = guarded("DisjointSetUnion", lambda: DisjointSetUnion(n))
    model = table_model.Partition(n)
    joined = False
    for si, s in enumerate(program["steps"]):
        out["steps"] += 1
        k = s["k"]
        if k == "union":
            a, b = s["a"] % n, s["b"] % n
            if not model.same(a, b):
                joined = True
            guarded("union_sets", lambda: dsu.union_sets(a, b))
            model.union(a, b)
            world.log(si, k, a, b)
        elif k == "same":
            a, b = s["a"] % n, s["b"] % n
            got = guarded("is_same_set", lambda: dsu.is_same_set(a, b))
            if bool(got) != model.same(a, b):
                raise Bad("dsu_wrong", "is_same_set", f"is_same_set({a},{b}) = {got}, unions so far say {model.same(a, b)}")
            world.log(si, k, a, b, bool(got))
        elif k == "find":
            a = s["a"] % n
            r = guarded("find_parent", lambda: dsu.find_parent(a))
            if not (isinstance(r, (int, np.integer)) and 0 <= r < n and model.same(a, int(r))):
                raise Bad("dsu_wrong", "find_parent", f"find_parent({a}) = {r!r} is not in the block of {a}")
            world.log(si, k, a)
        else:
            v = s["v"]
            got = guarded("validate_node", lambda: dsu.validate_node(v))
            if bool(got) != (0 <= v < n):
                raise Bad("dsu_wrong", "validate_node", f"validate_node({v}) = {got} with {n} elements")
            world.log(si, k, v, bool(got))
        # full partition, read from a deep copy so that the real structure keeps its history
        probe = copy.deepcopy(dsu)
        reps = guarded("find_parent", lambda: [probe.find_parent(i) for i in range(n)])
        blocks: dict = {}
        for i, r in enumerate(reps):
            blocks.setdefault(int(r), []).append(i)
        if sorted(blocks.values()) != model.blocks():
            raise Bad("dsu_wrong", f"partition_after:{k}",
                      f"blocks {sorted(blocks.values())[:6]} differ from the unions performed {model.blocks()[:6]}")
        # and the pairwise view on the real object for the pair just touched
        if k in ("union", "same"):
            a, b = s["a"] % n, s["b"] % n
            # two steps in three on a deep copy: the oracle's own question must not become part of the history of
            # the structure under test (it would overwrite whatever the structure remembers of its last query)
            target = dsu if si % 3 == 0 else copy.deepcopy(dsu)
            got = guarded("is_same_set", lambda: target.is_same_set(a, b))
            if bool(got) != model.same(a, b):
                raise Bad("dsu_wrong", f"is_same_set_after:{k}", f"is_same_set({a},{b}) = {got}")
        out["states"].append("p" + ",".join(str(x) for x in model.label))
    out["nontrivial"] = out["steps"] >= 3 and joined


def run_big(program: dict, world: World, out: dict):
    import pandas as pd

    from swcgeom.core import swc_utils
    from swcgeom.utils import DisjointSetUnion

    n = program["n"]
    big = 400 * n + BUDGET
    dsu = DisjointSetUnion(n)
    pat = program["pattern"]
    if pat == "new_first":
        pairs = [(i, i - 1) for i in range(1, n)]
    elif pat == "old_first":
        pairs = [(i - 1, i) for i in range(1, n)]
    else:
        pairs = [(i, i + 1) for i in range(0, n - 1, 2)] + [(i, i - 1) for i in range(2, n, 2)]
    for k, (a, b) in enumerate(pairs):
        out["steps"] += 1
        guarded("union_sets", lambda: dsu.union_sets(a, b), big)
    world.log("big_dsu", n, pat)
    for a, b in ((0, n - 1), (n // 2, 1), (n - 1, 0)):
        got = guarded("is_same_set", lambda: dsu.is_same_set(a, b), big)
        if not got:
            raise Bad("dsu_wrong", "is_same_set", f"after chaining all {n} elements is_same_set({a},{b}) is False")
    reps = guarded("find_parent", lambda: {dsu.find_parent(i) for i in range(n)}, 40 * big)
    if len(reps) != 1:
        raise Bad("dsu_wrong", "partition_after:union", f"{len(reps)} representatives after chaining all {n} elements")
    # a long neurite numbered in order with one side branch attached near its start, listed last
    pid = [-1] + list(range(0, n - 2)) + [program["branch_at"] % (n - 1)]
    ids = np.arange(n, dtype=np.int32)
    pids = np.array(pid, dtype=np.int32)
    if guarded("has_cyclic", lambda: swc_utils.has_cyclic((ids, pids)), 40 * big):
        raise Bad("checker_wrong", "has_cyclic", f"has_cyclic is True on a tree of {n} nodes")
    if not guarded("is_sorted", lambda: swc_utils.is_sorted((ids, pids)), 40 * big):
        raise Bad("checker_wrong", "is_sorted", f"is_sorted is False on a sorted tree of {n} nodes")
    df = pd.DataFrame({"id": ids, "type": 3, "x": 0.0, "y": 0.0, "z": 0.0, "r": 1.0, "pid": pids})
    if not guarded("is_single_root", lambda: swc_utils.is_single_root(df), 40 * big):
        raise Bad("checker_wrong", "is_single_root", f"is_single_root is False on a tree of {n} nodes")
    # one ring through all rows, each row's parent the next row: connected, and it contains a cycle
    rp = np.array([(i + 1) % n for i in range(n)], dtype=np.int32)
    rdf = pd.DataFrame({"id": ids, "type": 3, "x": 0.0, "y": 0.0, "z": 0.0, "r": 1.0, "pid": rp})
    if not guarded("is_single_root", lambda: swc_utils.is_single_root(rdf), 400 * big):
        raise Bad("checker_wrong", "is_single_root", f"is_single_root is False on a ring of {n} rows (all connected)")
    if not guarded("has_cyclic", lambda: swc_utils.has_cyclic((ids, rp)), 40 * big):
        raise Bad("checker_wrong", "has_cyclic", f"has_cyclic is False on a ring of {n} rows")
    world.log("big_table", n, program["branch_at"])
    out["states"].append(f"big|{n}|{pat}")
    out["nontrivial"] = True


def table_checks(pid: list[int], what: str, rowkeys=None, base: int = 0):
    import pandas as pd

    from swcgeom.core import swc_utils

    n = len(pid)
    order = list(range(n)) if not rowkeys else sorted(range(n), key=lambda i: (rowkeys[i % len(rowkeys)], i))
    ids = np.array([i + base for i in order], dtype=np.int32)
    pids = np.array([(-1 if pid[i] == -1 else pid[i] + base) for i in order], dtype=np.int32)
    df = pd.DataFrame({"id": ids.copy(), "type": np.zeros(n, dtype=np.int32), "x": np.zeros(n), "y": np.zeros(n),
                       "z": np.zeros(n), "r": np.ones(n), "pid": pids.copy()})
    if (n + sum(pid)) % 3 == 0 and n > 1:
        # the table as it looks after the caller filtered or re-ordered a bigger one: the row labels (index) are
        # not 0..n-1 any more, the rows and their order are the same
        df.index = [(7 * k + 3) % (n + 5) + (n + 5) * (k % 2) for k in range(n)]
    exp = table_model.connected(pid)
    got = guarded("is_single_root", lambda: swc_utils.is_single_root(df))
    if bool(got) != exp:
        raise Bad("checker_wrong", "is_single_root", f"table {pid}: is_single_root = {got}, connected = {exp}")
    if (n + len(what)) % 4 == 0:
        # the same table under other column names, next to a decoy column that carries the default name `pid`
        nm = swc_utils.SWCNames(id="n", type="kind", x="px", y="py", z="pz", r="radius", pid="parent")
        dfc = df.rename(columns={"id": "n", "type": "kind", "x": "px", "y": "py", "z": "pz", "r": "radius", "pid": "parent"})
        dfc["pid"] = -1  # raw / unrelated parents kept side by side
        dfc["id"] = np.arange(n)
        got = guarded("is_single_root", lambda: swc_utils.is_single_root(dfc, names=nm))
        if bool(got) != table_model.connected(pid):
            raise Bad("checker_wrong", "is_single_root", f"table {pid} under custom column names: is_single_root = {got}")
    exp = table_model.has_cycle(pid)
    got = guarded("has_cyclic", lambda: swc_utils.has_cyclic((ids.copy(), pids.copy())))
    if bool(got) != exp:
        raise Bad("checker_wrong", "has_cyclic", f"table {pid}: has_cyclic = {got}, brute force = {exp}")
    if order == list(range(n)):
        # with rows listed out of id order "precede" is ambiguous (row order or id order): not judged
        exp = table_model.parents_precede_children(pid)
        got = guarded("is_sorted", lambda: swc_utils.is_sorted((ids.copy(), pids.copy())))
        if bool(got) != exp:
            raise Bad("checker_wrong", "is_sorted", f"table {pid}: is_sorted = {got}, parents precede children = {exp}")
    else:
        guarded("is_sorted", lambda: swc_utils.is_sorted((ids.copy(), pids.copy())))  # must still terminate
    for ex in (False, True):
        exp = table_model.at_most_two_children(pid, ex)
        got = guarded("is_bifurcate", lambda: swc_utils.is_bifurcate((ids.copy(), pids.copy()), exclude_root=ex))
        if bool(got) != exp:
            raise Bad("checker_wrong", f"is_bifurcate[exclude_root={ex}]",
                      f"table {pid}: is_bifurcate = {got}, brute force = {exp}")


def persistent_frame(pid: list[int], rowkeys, base: int):
    import pandas as pd

    n = len(pid)
    order = list(range(n)) if not rowkeys else sorted(range(n), key=lambda i: (rowkeys[i % len(rowkeys)], i))
    ids = np.array([i + base for i in order], dtype=np.int32)
    pids = np.array([(-1 if pid[i] == -1 else pid[i] + base) for i in order], dtype=np.int32)
    df = pd.DataFrame({"id": ids, "type": np.zeros(n, dtype=np.int32), "x": np.zeros(n), "y": np.zeros(n),
                       "z": np.zeros(n), "r": np.ones(n), "pid": pids})
    return df, order


def diagnose_persistent(df, pid: list[int], what: str):
    """The SAME DataFrame object is diagnosed again after it was edited in place: the answer must be about the
    table as it is now (a labelling remembered on the frame from an earlier diagnosis would be stale)."""
    from swcgeom.core import swc_utils

    exp = table_model.connected(pid)
    got = guarded("is_single_root", lambda: swc_utils.is_single_root(df))
    if bool(got) != exp:
        raise Bad("checker_wrong", "is_single_root",
                  f"table {pid} ({what}, frame edited in place since its last diagnosis): is_single_root = {got}, connected = {exp}")


def run_table(program: dict, world: World, out: dict):
    pid = list(program["init"])
    interesting = False
    rowkeys = program.get("rowkeys")
    base = int(program.get("idbase", 0))
    table_checks(pid, "init", rowkeys, base)
    pdf, porder = persistent_frame(pid, rowkeys, base)
    diagnose_persistent(pdf, pid, "init")
    for si, s in enumerate(program["steps"]):
        out["steps"] += 1
        k = s["k"]
        n = len(pid)
        if k == "add":
            if n >= 14:
                world.log(si, k, "full")
                continue
            pid.append(-1 if s["p"] is None else s["p"] % (n + 1))  # may name itself: a self-loop
        elif k == "set":
            i = s["i"] % n
            pid[i] = -1 if s["p"] is None else s["p"] % n
            row = porder.index(i)
            val = -1 if pid[i] == -1 else pid[i] + base
            if si % 3 == 0:
                pdf = pdf.copy()  # a copy of a diagnosed frame, then edited: whatever rides along must not go stale
            if si % 2:
                pdf.loc[pdf.index[row], "pid"] = val
            else:
                pdf.iloc[row, pdf.columns.get_loc("pid")] = val
            world.probe("c18.persistent_frame_edited_in_place")
        else:
            if n <= 1:
                world.log(si, k, "minimal")
                continue
            last = n - 1
            pid.pop()
            pid = [(-1 if p == last else p) for p in pid]
        world.log(si, k, list(pid))
        if table_model.has_cycle(pid):
            world.probe("c18.table_has_cycle")
            interesting = True
            if pid[0] != -1:
                world.probe("c18.node0_not_a_root")
        if pid.count(-1) > 1:
            world.probe("c18.table_is_forest")
            interesting = True
        table_checks(pid, f"step {si}", rowkeys, base)
        if k == "pop" and len(pid) >= 1 and si % 2:
            # the caller drops the last node by filtering the frame it already has: labels keep their gaps
            removed = len(pid)  # id (before the base) of the node that was dropped
            pdf = pdf[pdf["id"] != removed + base]
            if len(pdf) and (pdf["pid"] == removed + base).any():
                pdf = pdf.copy()
                pdf.loc[pdf["pid"] == removed + base, "pid"] = -1
            if sorted(int(v) - base for v in pdf["id"]) != list(range(len(pid))):
                pdf, porder = persistent_frame(pid, rowkeys, base)
            else:
                porder = [int(v) - base for v in pdf["id"]]
                pdf = pdf.sort_values("id", kind="stable") if si % 4 == 1 else pdf
                porder = [int(v) - base for v in pdf["id"]]
                world.probe("c18.frame_filtered_keeps_old_labels")
        elif k != "set":
            pdf, porder = persistent_frame(pid, rowkeys, base)
        diagnose_persistent(pdf, pid, f"step {si}")
        out["states"].append("t" + ",".join(str(x) for x in pid))
    out["nontrivial"] = out["steps"] >= 3 and interesting


def first_root(f: dict) -> int:
    return f["pid"].index(-1)


def sig_of(f: dict) -> list[int]:
    return f.get("sig") or list(range(len(f["pid"])))


def forest_text(f: dict) -> str:
    n = len(f["pid"])
    b = f["base"]
    sig = sig_of(f)
    lines = ["# generated forest"]
    for i in range(n):
        p = f["pid"][i]
        if i and p == -1 and (n + i) % 2:
            lines.append(f"# fragment starting at row {i}")  # a separator comment in front of a later root
        if i and (3 * i + n) % 7 == 0:
            lines.append("" if i % 2 else "   # a remark between two samples")
        lines.append(f"{sig[i] + b} {f['type'][i]} {f['x'][i]:.4f} {f['y'][i]:.4f} {f['z'][i]:.4f} {f['r'][i]:.4f} "
                     f"{-1 if p == -1 else sig[p] + b}")
    return "\n".join(lines) + "\n"


COL_ORDERS = [None, None, ["id", "pid", "type", "x", "y", "z", "r"], ["x", "y", "z", "r", "type", "id", "pid"],
              ["pid", "r", "z", "y", "x", "type", "id"]]


def forest_frame(f: dict, int_xyz: bool = False, col_order=None):
    import pandas as pd

    n = len(f["pid"])
    b = f["base"]
    sig = sig_of(f)
    # int_xyz: coordinates in integer-typed columns (a table built from voxel indices); the generated coordinates are
    # multiples of 0.25, so four times them is exact
    cdt, mul = (np.int64, 4) if int_xyz else (np.float64, 1)
    df = pd.DataFrame({
        "id": np.array([b + sig[i] for i in range(n)], dtype=np.int64),
        "type": np.array(f["type"], dtype=np.int64),
        "x": np.array([v * mul for v in f["x"]], dtype=cdt),
        "y": np.array([v * mul for v in f["y"]], dtype=cdt),
        "z": np.array([v * mul for v in f["z"]], dtype=cdt),
        "r": np.array(f["r"], dtype=np.float64),
        "pid": np.array([-1 if p == -1 else sig[p] + b for p in f["pid"]], dtype=np.int64),
    })
    if col_order:
        df = df[col_order]  # the same table with its columns in another order (as a CSV export may have them)
    return df


def judge_frame(f: dict, rows: dict, op: str, *, repaired: bool, id_shift, relabelled: bool):
    """rows: columns as python lists. id_shift: expected id of original row i is i + id_shift (None if relabelled)."""
    n = len(f["pid"])
    if len(rows["id"]) != n:
        raise Bad("rows_lost", op, f"{len(rows['id'])} rows for a file with {n} nodes")
    # map result rows to original rows by the unique x coordinate
    by_x = {f["x"][i]: i for i in range(n)}
    try:
        orig = [by_x[float(x)] for x in rows["x"]]
    except KeyError as e:
        raise Bad("attribute_changed", op, f"x coordinate {e} does not occur in the file") from None
    if sorted(orig) != list(range(n)):
        raise Bad("rows_lost", op, "result rows are not a permutation of the file's nodes")
    if not relabelled and orig != list(range(n)):
        raise Bad("rows_reordered", op, "rows are not in file order")
    id_of = {}  # original row -> result id
    for j, i in enumerate(orig):
        id_of[i] = int(rows["id"][j])
        for col in ("type", "y", "z", "r"):
            if float(rows[col][j]) != float(f[col][i]):
                raise Bad("attribute_changed", op, f"node of file row {i}: {col} = {rows[col][j]} was {f[col][i]}")
    if len(set(id_of.values())) != n:
        raise Bad("ids_collide", op, "result ids are not distinct")
    if id_shift is not None:
        sig = sig_of(f)
        for i in range(n):
            if id_of[i] != sig[i] + id_shift:
                raise Bad("id_wrong", op, f"file row {i} has id {id_of[i]}, expected {sig[i] + id_shift}")
    new_pid = [None] * n  # original row -> original row of the new parent, or -1
    back = {v: k for k, v in id_of.items()}
    for j, i in enumerate(orig):
        p = int(rows["pid"][j])
        if p == -1:
            new_pid[i] = -1
        elif p in back:
            new_pid[i] = back[p]
        else:
            raise Bad("dangling_parent", op, f"node of file row {i} has parent id {p} which is no node of the result")
    first = first_root(f)
    for i in range(n):
        if f["pid"][i] != -1 and new_pid[i] != f["pid"][i]:
            raise Bad("edge_lost", op, f"file row {i}: parent was row {f['pid'][i]}, now {new_pid[i]}")
    roots = [i for i in range(n) if new_pid[i] == -1]
    if repaired:
        if roots != [first]:
            raise Bad("not_single_rooted", op, f"roots after repair are file rows {roots}, expected only row {first} (the first root)")
        if not table_model.connected(new_pid) or table_model.has_cycle(new_pid):
            raise Bad("not_a_tree", op, "the repaired table is not a tree")
    else:
        want = [i for i in range(n) if f["pid"][i] == -1]
        if roots != want:
            raise Bad("root_marker_lost", op, f"parentless rows are {roots}, the file has {want}")


def frame_rows(df) -> dict:
    return {c: [v.item() if hasattr(v, "item") else v for v in df[c].to_numpy()] for c in ("id", "type", "x", "y", "z", "r", "pid")}


def run_roots(program: dict, world: World, out: dict):
    import pandas as pd

    from swcgeom.core import Tree, swc_utils

    f = program["forest"]
    n = len(f["pid"])
    k = f["pid"].count(-1)
    b = f["base"]
    text = forest_text(f)
    frame = forest_frame(f)
    got = guarded("is_single_root", lambda: swc_utils.is_single_root(frame))
    if bool(got) != (k == 1):
        raise Bad("checker_wrong", "is_single_root", f"forest with {k} roots on {n} rows: is_single_root = {got}")
    topo = (frame["id"].to_numpy() - b, np.where(frame["pid"].to_numpy() == -1, -1, frame["pid"].to_numpy() - b))
    if guarded("has_cyclic", lambda: swc_utils.has_cyclic(topo)):
        raise Bad("checker_wrong", "has_cyclic", f"has_cyclic is True on an acyclic forest of {n} rows")
    wrote = False
    for ri, rd in enumerate(program["reads"]):
        out["steps"] += 1
        fix, api = rd["fix"], rd["api"]
        op = f"{api}[fix_roots={fix}]"
        world.take_warnings()
        if api == "table":
            int_xyz = bool(rd.get("int_xyz", (n + ri) % 3 == 0))
            fj = f if not int_xyz else dict(f, x=[v * 4 for v in f["x"]], y=[v * 4 for v in f["y"]], z=[v * 4 for v in f["z"]])
            if int_xyz:
                world.probe("c18.integer_typed_coordinates")
            order = COL_ORDERS[(2 * n + ri) % len(COL_ORDERS)]
            if order:
                world.probe("c18.columns_in_another_order")
            df = forest_frame(f, int_xyz, order)
            if ri % 2 == 0:
                # diagnose first (as read_swc does after a read), then repair, then diagnose the repaired table
                guarded("is_single_root", lambda: swc_utils.is_single_root(df))
            before = df.copy(deep=True)
            if fix == "somas":
                op = "mark_roots_as_somas"
                res = guarded(op, lambda: swc_utils.mark_roots_as_somas(df))
                shift, repaired = b, True
            elif fix == "nearest":
                op = "link_roots_to_nearest"
                res = guarded(op, lambda: swc_utils.link_roots_to_nearest(df))
                shift, repaired = b, True
            elif f.get("lead"):
                # re-basing on a first root that is not the first row sends the id one below it to the no-parent
                # marker: an ambiguous encoding, nothing is demanded
                world.log(ri, "reset_index", "skipped: rows listed before the first root")
                continue
            else:
                op = "reset_index"
                res = guarded(op, lambda: swc_utils.reset_index(df))
                shift, repaired = -sig_of(f)[0], False
            if not df.equals(before):
                raise Bad("input_modified", op, "the input frame was modified by the copying variant")
            judge_frame(fj, frame_rows(res), op, repaired=repaired, id_shift=shift, relabelled=False)
            again = guarded("is_single_root", lambda: swc_utils.is_single_root(res))
            if bool(again) != (repaired or k == 1):
                raise Bad("checker_wrong", "is_single_root",
                          f"after {op} on a diagnosed forest of {k} roots: is_single_root(result) = {again}")
            if repaired and ri % 3 == 0:
                # the in-place flavour on a frame that was diagnosed before
                df2 = forest_frame(f, int_xyz, order)
                guarded("is_single_root", lambda: swc_utils.is_single_root(df2))
                inplace = swc_utils.mark_roots_as_somas_ if fix == "somas" else swc_utils.link_roots_to_nearest_
                guarded(op + "_", lambda: inplace(df2))
                judge_frame(fj, frame_rows(df2), op + "_", repaired=True, id_shift=b, relabelled=False)
                if not guarded("is_single_root", lambda: swc_utils.is_single_root(df2)):
                    raise Bad("checker_wrong", "is_single_root", f"after {op}_ (in place) on a diagnosed forest: still reported as not single-rooted")
            world.log(ri, op, "ok")
        else:
            # ONE file for all reads of the run, written once: the same unchanged file is read again and again
            # with different repair modes, in the generated order
            rel = "forest.swc"
            if not wrote:
                world.put(rel, text.encode())
                wrote = True
                world.read_plans.pop(rel, None)
            else:
                world.probe("c18.same_file_read_again")
            path = world.path(rel)
            plan = StreamPlan.from_json(rd["stream"])
            world.read_plans.pop(rel, None)
            if not plan.is_default():
                world.read_plans[rel] = plan
            sort = bool(rd["sort"]) and fix is not False
            if f.get("sig") and api == "tree":
                if fix is False:
                    api, op = "read_swc", f"read_swc[fix_roots={fix}]"  # a Tree needs id == position
                else:
                    sort = True
            if f.get("lead"):
                world.probe("c18.rows_listed_before_the_first_root")
                if api == "tree":
                    if fix is False:
                        api, op = "read_swc", f"read_swc[fix_roots={fix}]"
                    else:
                        sort = True
            reset = bool(rd["reset"]) or api == "tree"
            if f.get("lead") and not sort:
                reset = False  # see reset_index above: ids are left as they are
            if fix == "nearest" and sig_of(f)[0] > 0 and api == "read_swc" and not sort:
                # re-basing on a first root that does not carry the smallest id maps id (root - 1) to the
                # no-parent marker; `nearest` may make exactly that node a parent. The statement cannot mean a
                # particular answer for an ambiguous encoding: the ids are left as they are in this case.
                reset = False
            # the same text from a path, a StringIO or a BytesIO (stream sources carry no file name)
            srck = ["path", "path", "string", "bytes"][(ri + n) % 4]
            if srck == "string":
                path = world.string_source(text)
            elif srck == "bytes":
                path = world.bytes_source(text.encode(), plan)
            if srck != "path":
                world.probe("c18.forest_read_from_a_stream")
            if api == "read_swc":
                df, _ = guarded(op, lambda: swc_utils.read_swc(path, fix_roots=fix, sort_nodes=sort, reset_index=reset))
                rows = frame_rows(df)
            else:
                t = guarded(op, lambda: Tree.from_swc(path, fix_roots=fix, sort_nodes=sort))
                rows = {c: [v.item() for v in t.get_ndata(c)] for c in ("id", "type", "x", "y", "z", "r", "pid")}
            ws = world.take_warnings()
            shift = None if sort else (-sig_of(f)[0] if reset else b)
            judge_frame(f, rows, op, repaired=fix is not False, id_shift=shift, relabelled=sort)
            if sort:
                ids = [int(v) for v in rows["id"]]
                if ids != list(range(n)) or not all(int(p) < i for i, p in enumerate(rows["pid"])):
                    raise Bad("not_sorted", op, "sort_nodes=True result is not numbered 0..n-1 with parents first")
            if fix is False and k >= 2 and not ws:
                raise Bad("no_warning", op, f"a file with {k} roots was read without any warning")
            world.log(ri, op, sort, reset, "ok", len(ws))
        out["states"].append(f"r{k}|{b}|{op}")
    out["nontrivial"] = k >= 2


def execute(program: dict) -> dict:
    out = {"steps": 0, "states": [], "nontrivial": False}
    violation = None
    with World() as world:
        try:
            if program["mode"] == "dsu":
                run_dsu(program, world, out)
            elif program["mode"] == "table":
                run_table(program, world, out)
            elif program["mode"] == "big":
                run_big(program, world, out)
            else:
                run_roots(program, world, out)
        except Bad as e:
            violation = e.v
            world.log("violation", violation["tag"], violation["op"])
        faults = dict(world.faults)
        probes = dict(world.probes)
        digest = world.digest()
    return {"violation": violation, "digest": digest, "steps": out["steps"], "faults": faults, "probes": probes,
            "nontrivial": out["nontrivial"], "config": program.get("config", "fault_free"), "states": out["states"]}


# ---------------------------------------------------------------------------


def _drop_forest_row(program: dict, i: int):
    f = program["forest"]
    n = len(f["pid"])
    if n <= 2 or i == 0:
        return None
    p = copy.deepcopy(program)
    g = p["forest"]
    par = g["pid"][i]
    for k in ("pid", "type", "x", "y", "z", "r"):
        del g[k][i]
    g["pid"] = [(-1 if q == -1 else (par if q == i else q)) for q in g["pid"]]
    g["pid"] = [(q - 1 if q > i else q) for q in g["pid"]]
    if g.get("sig"):
        gone = g["sig"][i]
        del g["sig"][i]
        g["sig"] = [(v - 1 if v > gone else v) for v in g["sig"]]
    return p


def shrink_candidates(program: dict):
    mode = program["mode"]
    if mode == "big":
        if program["n"] > 1500:
            yield shrink.with_value(program, ["n"], 1500)
        return
    if mode in ("dsu", "table"):
        yield from shrink.drop_from_list(program, ["steps"], min_len=1)
        if mode == "dsu":
            for n in (2, 3, 5, 8):
                if n < program["n"]:
                    yield shrink.with_value(program, ["n"], n)
            for si, s in enumerate(program["steps"]):
                for key in ("a", "b"):
                    if key in s and s[key] != 0:
                        yield shrink.with_value(program, ["steps", si, key], 0)
                        yield shrink.with_value(program, ["steps", si, key], s[key] % max(program["n"], 1))
        else:
            if len(program["init"]) > 1:
                yield shrink.with_value(program, ["init"], [-1])
            for si, s in enumerate(program["steps"]):
                for key in ("i", "p"):
                    if key in s and isinstance(s[key], int) and s[key] != 0:
                        yield shrink.with_value(program, ["steps", si, key], 0)
                        yield shrink.with_value(program, ["steps", si, key], s[key] % 14)
    else:
        yield from shrink.drop_from_list(program, ["reads"], min_len=1)
        for i in range(len(program["forest"]["pid"]) - 1, 0, -1):
            c = _drop_forest_row(program, i)
            if c is not None:
                yield c
        if program["forest"].get("sig"):
            yield shrink.with_value(program, ["forest", "sig"], None)
        if program["forest"]["base"] not in (0, 1):
            yield shrink.with_value(program, ["forest", "base"], 1)
        for ri, r in enumerate(program["reads"]):
            if r["stream"]:
                yield shrink.with_value(program, ["reads", ri, "stream"], {})
            if r["sort"]:
                yield shrink.with_value(program, ["reads", ri, "sort"], False)


FINDING_PREDICATES: dict = {}
