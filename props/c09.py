"""C09 - node, path, branch and segment views are faithful windows onto their tree.

System under simulation: up to three owner trees, each mirrored by a plain list-of-columns
model, and a registry of live handles on them (node handles reached by every indexing
route, paths, branches, compartments, hand-built paths, detached objects, tree copies).
The thing explored is the HISTORY of handle creation, reads, writes through node handles,
copy() and detach(): write-through versus isolation cannot be seen from a single call.
After every step every live handle is read back and compared with the mirror.

There is no I/O, clock or randomness behind a view, so no fault kind exists here; this is
pure history exploration and the fault counters are zero by construction.
"""

from __future__ import annotations

import copy

import numpy as np

from models import tree_model
from models.tree_model import f32
from props import common
from simkit import shrink
from simkit.prng import Prng
from simkit.world import World

PROP = "C09"
LEVEL = "exploration"
TIERS = {"quick": 6400, "thorough": 160000}
RULE = (
    "one run = 1-2 generated trees (<= 25 nodes, root at index 0, sorted or merely well-formed numbering) and a "
    "history of 5-40 steps: mk (node handle via tree[i] / tree[-k] / tree.node(i) / tree[a:b:c] / iteration / "
    "parent() / children() / Node.branch(); paths from get_paths; branches from get_branches; compartments "
    "from get_segments; hand-built Path/Branch/Compartment; a Compartments list mixing segments of several owners), index (int, negative, slice on a path or branch), "
    "write (type/x/y/z/r, and pid = re-parenting, through a Tree.Node handle), write_owner (column write on the owner side of a detached "
    "object or a copy), copy, detach, adj. After EVERY step every live handle is read through all its accessors "
    "and compared with the mirror model. Distinct = distinct event-log digest; non-trivial = >= 3 steps with at "
    "least one write performed while >= 2 handles were live."
)
STATE_MEASURE = "distinct (step kind, live handle-kind multiset, number of owners) tuples"
COMPONENTS = {
    "real": ["swcgeom.core.node", "swcgeom.core.path", "swcgeom.core.branch", "swcgeom.core.compartment",
             "swcgeom.core.tree (indexing, get_paths/get_branches/get_segments)", "swcgeom.core.swc (DictSWC.copy, "
             "get_adjacency_matrix)", "numpy", "scipy.sparse"],
    "stub": [],
    "replaced_leaf_functions": [],
}
ASSUMPTIONS = [
    "writes are issued only through node handles obtained from a tree (Tree.Node), as the statement says, or "
    "directly on the owner's columns; a write through a path's/branch's own node handle is not covered by the "
    "statement and is not exercised",
    "type, x, y, z, r and (through tree node handles only) pid are written; a pid write re-parents a non-root node "
    "to a node outside its own subtree, so the owner stays a tree; views made earlier keep referring to the rows "
    "they were made from; id is never written",
    "a path/branch is identified by the index array it carries; that array must be a parent->child chain of the tree",
    "local id()/pid() numbering of a path and the id/pid of a detached object are not compared (the statement is "
    "about the attributes of the nodes referred to)",
    "aggregate accessors of an EMPTY Compartments list (single-node tree) are not exercised",
    "trees may carry an extra per-node column (`level`) and may be constructed from strided column views; both are "
    "ordinary uses of the public constructor",
]

ATTRS = ["type", "x", "y", "z", "r"]
MAX_HANDLES = 28


# ---------------------------------------------------------------------------
# generation


def gen_model(rng: Prng, n: int) -> dict:
    t = tree_model.gen_tree(rng, n, wild=False, types=[0, 1, 2, 3, 3, 4, 5])
    # small distinct values so that every read is attributable to one node
    for j, k in enumerate("xyz"):
        t[k] = [float(100 * (j + 1) + i) for i in range(n)]
    t["r"] = [f32(0.25 + 0.125 * i) for i in range(n)]
    if rng.chance(0.3) and n > 2:
        perm = [0] + [1 + p for p in rng.permutation(n - 1)]
        inv = [0] * n
        for old, new in enumerate(perm):
            inv[new] = old
        t2 = {k: [t[k][inv[j]] for j in range(n)] for k in t}
        t2["pid"] = [(-1 if t["pid"][inv[j]] == -1 else perm[t["pid"][inv[j]]]) for j in range(n)]
        t = t2
    if rng.chance(0.3):
        # columns handed to the constructor as strided views (the library itself produces such columns,
        # e.g. the rows of a transposed matrix after an affine transform)
        t["strided"] = [c for c in ("x", "y", "z", "r", "type") if rng.chance(0.5)]
    if rng.chance(0.35):
        t["level"] = [int(rng.below(5)) for _ in range(n)]  # an extra per-node column
        t["level_name"] = rng.choice(["level", "level", "index", "count", "cols", "label", "keys", "id_"])
    if rng.chance(0.15):
        t["rgb"] = [[float(rng.below(256)) for _ in range(3)] for _ in range(n)]  # a vector-valued per-node column
    om = rng.stream("omit")
    if om.chance(0.12):
        # the constructor is given only some of the attribute columns; the tree fills in the others itself (whatever
        # default it chooses is read back into the model) and they are written through handles like any column
        t["omit"] = [c for c in ("type", "x", "y", "z", "r") if om.chance(0.45)] or ["r"]
    return t


def gen_step(rng: Prng) -> dict:
    k = rng.weighted([("mk", 10), ("write", 8), ("index", 4), ("detach", 3), ("copy", 2), ("write_owner", 3),
                      ("adj", 1), ("scribble", 2), ("idwrite", 1)])
    s: dict = {"k": k, "t": rng.below(64), "h": rng.below(64)}
    if k == "mk":
        s["what"] = rng.weighted([("getitem", 3), ("node", 1), ("slice", 2), ("iter", 1), ("parent", 2),
                                  ("children", 3), ("nbranch", 2), ("paths", 3), ("branches", 4), ("segs", 3),
                                  ("handpath", 2), ("handbranch", 1), ("handseg", 1), ("mixsegs", 2)])
        s["i"] = rng.randint(-30, 30)
        s["j"] = rng.below(64)
        if s["what"] == "slice":
            s["sl"] = [rng.choice([None, rng.randint(-30, 30)]), rng.choice([None, rng.randint(-30, 30)]),
                       rng.choice([None, 1, 2, 3, -1, -2])]
        if s["what"] == "handpath":
            s["ids"] = [rng.below(64) for _ in range(rng.randint(1, 6))]
    elif k in ("write", "write_owner"):
        s["col"] = rng.choice(ATTRS + ["level"]) if k == "write_owner" or not rng.chance(0.18) else "pid"
        s["val"] = rng.randint(1, 4000)
        s["i"] = rng.below(64)
        s["via"] = rng.choice(["attr", "item"])
    elif k == "idwrite":
        s["i"] = rng.below(64)
        s["val"] = rng.randint(1, 4000)
        s["sl"] = [rng.choice([None, rng.randint(-30, 30)]), rng.choice([None, rng.randint(-30, 30)]), rng.choice([None, 1, 2, -1])]
    elif k == "scribble":
        s["what"] = rng.choice(["branch_segs", "branch_segs", "tree_segs", "paths", "branches", "children"])
        s["how"] = rng.choice(["pop", "reverse", "clear", "extend", "del0", "double"])
    elif k == "index":
        s["i"] = rng.randint(-30, 30)
        if rng.chance(0.5):
            s["sl"] = [rng.choice([None, rng.randint(-30, 30)]), rng.choice([None, rng.randint(-30, 30)]),
                       rng.choice([None, 1, 2, -1, -3])]
    return s


def generate(rng: Prng, tier: str) -> dict:
    w = rng.stream("workload")
    n_trees = w.weighted([(1, 6), (2, 3)])
    big = 25 if tier == "quick" else 40
    trees = [gen_model(w, w.choice([1, 2, 3, 4, 5, 6, 8, 12, 17, big])) for _ in range(n_trees)]
    steps = [gen_step(w) for _ in range(w.randint(5, 40))]
    dv = rng.stream("derive")
    out = []
    for st in steps:
        if dv.chance(0.05):
            # "for all trees": a tree the library itself built (two trees joined, a subtree cut out) becomes an owner
            # like any other - its views must be windows onto ITS columns
            out.append({"k": "derive", "t": dv.below(64), "t2": dv.below(64), "how": dv.choice(["cat", "cat", "cat_self", "subtree"]),
                        "n1": dv.below(64), "n2": dv.below(64)})
            out.append({"k": "mk", "t": -1, "h": dv.below(64), "what": dv.choice(["getitem", "slice", "iter", "segs", "node"]),
                        "i": dv.choice([-1, -1, -2, 0, dv.randint(-30, 30)]), "j": dv.below(64),
                        "sl": [dv.choice([None, -3, 2]), dv.choice([None, -1, 100]), dv.choice([None, 1, 2, -1])]})
        out.append(st)
    return {"prop": PROP, "trees": trees, "steps": out, "config": "fault_free"}


# ---------------------------------------------------------------------------
# execution helpers


class Mismatch(Exception):
    def __init__(self, tag: str, detail: str):
        super().__init__(detail)
        self.tag, self.detail = tag, detail


def as_list(a, col: str) -> list:
    arr = np.asarray(a)
    if col in ("type", "id", "pid", "level"):
        return [int(v) for v in arr.reshape(-1)]
    return [float(v) for v in arr.reshape(-1)]


def expect_cols(owner: dict, ids: list[int], col: str) -> list:
    m = owner["m"][col]
    return [m[i] for i in ids]


def chk(cond: bool, tag: str, detail: str):
    if not cond:
        raise Mismatch(tag, detail)


def attrs_of(owner: dict) -> list:
    return ATTRS + (["level"] if "level" in owner["m"] else [])


def rn(owner: dict, col: str) -> str:
    """The name under which the model's extra column `level` is stored in this owner (`index`, `count`, ... are
    ordinary column names for a tree, although they are also method names of the SWCNames tuple)."""
    return owner.get("level_name", "level") if col == "level" else col


def read_rgb(obj, owner: dict, ids: list[int], what: str):
    """A vector-valued per-node column (n x 3): a view reports the ROWS of its nodes."""
    if "rgb" not in owner:
        return
    got = np.asarray(obj.get_ndata("rgb"))
    exp = np.asarray([owner["rgb"][i] for i in ids], dtype=got.dtype).reshape(len(ids), 3)
    chk(got.shape == exp.shape and (got == exp).all(), "path_read",
        f"{what}.get_ndata('rgb') has shape {got.shape}, values {got.reshape(-1)[:6].tolist()}; expected the rows {exp[:2].tolist()}")


def read_node(obj, owner: dict, i: int, what: str, full: bool):
    """A node handle must read the attributes of node i of its owner."""
    m = owner["m"]
    for col in attrs_of(owner):
        exp = m[col][i]
        if col != "level":
            got = getattr(obj, col)
            chk(float(got) == float(exp), "node_read", f"{what}.{col} reads {got!r}, node {i} holds {exp!r}")
        got2 = obj[rn(owner, col)]
        chk(float(got2) == float(exp), "node_read", f"{what}[{rn(owner, col)!r}] reads {got2!r}, node {i} holds {exp!r}")
    xyz = as_list(obj.xyz(), "x")
    chk(xyz == [m["x"][i], m["y"][i], m["z"][i]], "node_read", f"{what}.xyz() = {xyz}")
    xyzr = as_list(obj.xyzr(), "x")
    chk(xyzr == [m["x"][i], m["y"][i], m["z"][i], m["r"][i]], "node_read", f"{what}.xyzr() = {xyzr}")
    if full:
        chk(int(obj.id) == m["id"][i] and int(obj.pid) == m["pid"][i], "node_read",
            f"{what}: id/pid read {obj.id}/{obj.pid}, node {i} holds {m['id'][i]}/{m['pid'][i]}")


def read_pathlike(obj, owner: dict, ids: list[int], what: str, deep: bool):
    n = len(ids)
    chk(len(obj) == n, "path_len", f"{what}: len {len(obj)} but it refers to {n} nodes")
    for col in attrs_of(owner):
        exp = expect_cols(owner, ids, col)
        got = as_list(obj.get_ndata(rn(owner, col)), col)
        chk(got == exp, "path_read", f"{what}.get_ndata({rn(owner, col)!r}) = {got[:8]} expected {exp[:8]}")
        if col != "level":
            got = as_list(getattr(obj, col)(), col)
            chk(got == exp, "path_read", f"{what}.{col}() = {got[:8]} expected {exp[:8]}")
        got = as_list(obj[rn(owner, col)], col)
        chk(got == exp, "path_read", f"{what}[{rn(owner, col)!r}] = {got[:8]} expected {exp[:8]}")
    read_rgb(obj, owner, ids, what)
    m = owner["m"]
    exp = [[m["x"][i], m["y"][i], m["z"][i]] for i in ids]
    got = np.asarray(obj.xyz(), dtype=np.float64).tolist()
    chk(got == exp, "path_read", f"{what}.xyz() differs")
    exp = [[m["x"][i], m["y"][i], m["z"][i], m["r"][i]] for i in ids]
    got = np.asarray(obj.xyzr(), dtype=np.float64).tolist()
    chk(got == exp, "path_read", f"{what}.xyzr() differs")
    if owner["idpid"]:
        got = as_list(obj.origin_id(), "id")
        chk(got == [m["id"][i] for i in ids], "path_read", f"{what}.origin_id() = {got[:8]}")
    if deep:
        k = 0
        for nd in obj:
            chk(k < n, "path_iter", f"{what}: iteration yields more than {n} nodes")
            read_node(nd, owner, ids[k], f"{what}<iter {k}>", False)
            k += 1
        chk(k == n, "path_iter", f"{what}: iteration yields {k} nodes, expected {n}")
        # the handles of one iteration kept alive together (list(view), zip, next() twice) and read afterwards
        nodes = list(obj)
        chk(len(nodes) == n, "path_iter", f"{what}: list(view) has {len(nodes)} nodes, expected {n}")
        for k in range(n - 1, -1, -1):
            read_node(nodes[k], owner, ids[k], f"{what}<list(view)[{k}]>", False)


def read_branch_segments(obj, owner: dict, ids: list[int], what: str):
    segs = obj.get_segments()
    n = len(ids)
    chk(len(segs) == max(n - 1, 0), "branch_segments", f"{what}: {len(segs)} segments for {n} nodes")
    for k, sg in enumerate(segs):
        read_pathlike(sg, owner, [ids[k], ids[k + 1]], f"{what}.segment[{k}]", False)
    if n > 1:
        for col in ATTRS:
            got = np.asarray(getattr(segs, col)(), dtype=np.float64).tolist()
            exp = [[float(owner["m"][col][ids[k]]), float(owner["m"][col][ids[k + 1]])] for k in range(n - 1)]
            chk(got == exp, "branch_segments", f"{what}.get_segments().{col}() differs")


def read_tree(owner: dict, what: str):
    tree, m = owner["obj"], owner["m"]
    n = len(m["id"])
    chk(len(tree) == n, "tree_read", f"{what}: len {len(tree)} expected {n}")
    for col in attrs_of(owner) + ["id", "pid"]:
        got = as_list(tree[rn(owner, col)], col)
        chk(got == m[col], "tree_read", f"{what}[{rn(owner, col)!r}] differs from the model: {got[:8]} vs {m[col][:8]}")
        got = as_list(tree.get_ndata(rn(owner, col)), col)
        chk(got == m[col], "tree_read", f"{what}.get_ndata({rn(owner, col)!r}) differs")
    if "rgb" in owner:
        got = np.asarray(tree["rgb"])
        chk(got.shape == (n, 3) and got.tolist() == owner["rgb"], "tree_read", f"{what}['rgb'] differs")
    got = np.asarray(tree.xyzr(), dtype=np.float64).tolist()
    chk(got == [[m["x"][i], m["y"][i], m["z"][i], m["r"][i]] for i in range(n)], "tree_read", f"{what}.xyzr() differs")
    want = owner.get("comments", ["c"])
    chk(list(tree.comments) == want, "tree_read", f"{what}.comments = {list(tree.comments)[:4]} expected {want[:4]}")


def read_dict_owner(owner: dict, what: str):
    d, m = owner["obj"], owner["m"]
    if "did" in m:
        got = [int(np.asarray(d.get_ndata("id")).reshape(-1)[0]), int(np.asarray(d.get_ndata("pid")).reshape(-1)[0])]
        chk(got == [m["did"][0], m["dpid"][0]], "detached_read",
            f"{what}: id/pid of the detached node read {got}, expected {[m['did'][0], m['dpid'][0]]}")
    for col in attrs_of(owner):
        got = as_list(d.get_ndata(rn(owner, col)), col)
        chk(got == m[col], "detached_read", f"{what}: column {rn(owner, col)} = {got[:8]} expected {m[col][:8]}")
    if "rgb" in owner:
        got = np.asarray(d.get_ndata("rgb"))
        chk(got.reshape(-1).tolist() == [v for row in owner["rgb"] for v in row] and got.shape[-1] == 3, "detached_read",
            f"{what}: column rgb has shape {got.shape}, expected the rows {owner['rgb'][:2]}")


def is_chain(m: dict, ids: list[int]) -> bool:
    return all(m["pid"][ids[k + 1]] == ids[k] for k in range(len(ids) - 1))


def sweep(owners: list, handles: list, deep_ix: int | None):
    for oi, o in enumerate(owners):
        if o["kind"] == "tree":
            read_tree(o, f"tree{oi}")
        else:
            read_dict_owner(o, f"detached{oi}")
    for hi, h in enumerate(handles):
        o = owners[h["o"]]
        what = f"{h['kind']}#{h['serial']}({h['via']})"
        deep = deep_ix is None or hi == deep_ix or h.get("fresh", False)
        if h["kind"] == "node":
            read_node(h["obj"], o, h["ids"][0], what, o["idpid"])
        elif h["kind"] == "vnode":
            read_node(h["obj"], o, h["ids"][0], what, False)
        elif h["kind"] in ("path", "seg"):
            read_pathlike(h["obj"], o, h["ids"], what, deep)
        elif h["kind"] == "branch":
            read_pathlike(h["obj"], o, h["ids"], what, deep)
            if deep:
                read_branch_segments(h["obj"], o, h["ids"], what)
        elif h["kind"] == "mixsegs":
            segs, pairs, m = h["obj"], h["ids"], o["m"]
            k = len(pairs) // 2
            chk(len(segs) == k, "mixed_segments", f"{what}: {len(segs)} members, expected {k}")
            for col in ATTRS:
                got = np.asarray(getattr(segs, col)(), dtype=np.float64).tolist()
                exp = [[float(m[col][pairs[2 * q]]), float(m[col][pairs[2 * q + 1]])] for q in range(k)]
                chk(got == exp, "mixed_segments", f"{what}.{col}() does not report its members' node pairs")
        elif h["kind"] == "segs":
            segs = h["obj"]
            m = o["m"]
            n = len(m["id"])
            pairs = h["ids"]  # flattened (parent, child) pairs as they were when the list was made
            chk(len(segs) == n - 1, "tree_segments", f"{what}: {len(segs)} segments for {n} nodes")
            if n > 1:
                for col in ATTRS:
                    got = np.asarray(getattr(segs, col)(), dtype=np.float64).tolist()
                    exp = [[float(m[col][pairs[2 * q]]), float(m[col][pairs[2 * q + 1]])] for q in range(n - 1)]
                    chk(got == exp, "tree_segments", f"{what}.{col}() is not the (parent, child) table")
                if deep:
                    got = np.asarray(segs.xyz(), dtype=np.float64)
                    chk(got.shape == (n - 1, 2, 3), "tree_segments", f"{what}.xyz() shape {got.shape}")
                    got = np.asarray(segs.xyzr(), dtype=np.float64)
                    chk(got.shape == (n - 1, 2, 4), "tree_segments", f"{what}.xyzr() shape {got.shape}")
        h["fresh"] = False


def kind_bag(handles: list) -> str:
    c: dict = {}
    for h in handles:
        c[h["kind"]] = min(c.get(h["kind"], 0) + 1, 3)
    return ",".join(f"{k}{c[k]}" for k in sorted(c))


# ---------------------------------------------------------------------------


def execute(program: dict) -> dict:
    from swcgeom.core import Branch, Compartment, Path, Tree

    violation = None
    states: list = []
    steps = 0
    wrote_with_handles = False
    serial = [0]
    with World() as world:
        owners: list = []
        handles: list = []
        for tm in program["trees"]:
            n = len(tm["pid"])

            def col(name, dtype):
                a = np.array(tm[name], dtype=dtype)
                if name in tm.get("strided", ()):
                    a = np.repeat(a, 2)[::2]  # same values, stride of two elements
                return a

            lname = tm.get("level_name", "level")
            extra = {lname: np.array(tm["level"], dtype=np.int32)} if "level" in tm else {}
            if "rgb" in tm:
                extra["rgb"] = np.array(tm["rgb"], dtype=np.float32)
            given = {"type": col("type", np.int32), "x": col("x", np.float32), "y": col("y", np.float32),
                     "z": col("z", np.float32), "r": col("r", np.float32)}
            for c in tm.get("omit", ()):
                del given[c]
            t = Tree(n, id=np.arange(n, dtype=np.int32), pid=np.array(tm["pid"], dtype=np.int32), comments=["c"],
                     source="gen", **given, **extra)
            m = {k: list(tm[k]) for k in ATTRS + (["level"] if "level" in tm else [])}
            for c in tm.get("omit", ()):
                # the default the tree chose (nothing is demanded of its value, only that it is one value per node)
                dv = np.asarray(t.get_ndata(c)).reshape(-1).tolist()
                m[c] = [int(v) for v in dv] if c == "type" else [float(v) for v in dv]
                world.probe("c09.column_filled_in_by_the_constructor")
            m["id"] = list(range(n))
            m["pid"] = list(tm["pid"])
            owners.append({"kind": "tree", "obj": t, "m": m, "idpid": True, "level_name": lname})
            if "rgb" in tm:
                owners[-1]["rgb"] = [list(map(float, row)) for row in tm["rgb"]]

        def add(kind, o, ids, obj, via):
            serial[0] += 1
            handles.append({"kind": kind, "o": o, "ids": [int(i) for i in ids], "obj": obj, "via": via,
                            "serial": serial[0], "fresh": True})
            while len(handles) > MAX_HANDLES:
                handles.pop(0)

        def tree_owner(sel):
            ix = [i for i, o in enumerate(owners) if o["kind"] == "tree"]
            return ix[sel % len(ix)]

        cur_op = "init"
        try:
            sweep(owners, handles, None)
            for si, step in enumerate(program["steps"]):
                steps += 1
                k = step["k"]
                cur_op = k
                deep_ix = None if si % 5 == 4 else -1
                if k == "mk":
                    what = step["what"]
                    cur_op = f"mk:{what}"
                    oi = tree_owner(step["t"])
                    o = owners[oi]
                    tree, m = o["obj"], o["m"]
                    n = len(m["id"])
                    if what == "getitem":
                        i = step["i"]
                        i = (abs(i) % n) if i >= 0 else -1 - (abs(i + 1) % n)
                        add("node", oi, [i % n], tree[i], f"tree[{i}]")
                    elif what == "node":
                        # tree.node(i) with any valid position, negative ones included (the handle keeps the number
                        # it was given; tree[i] normalises it first)
                        i = step["i"]
                        i = (abs(i) % n) if i >= 0 else -1 - (abs(i + 1) % n)
                        add("node", oi, [i % n], tree.node(i), f"tree.node({i})")
                    elif what == "slice":
                        sl = slice(*step["sl"])
                        exp = list(range(n))[sl]
                        got = tree[sl]
                        chk(len(got) == len(exp), "slice_len", f"tree[{sl}] has {len(got)} nodes, expected {len(exp)}")
                        for q, (nd, i) in enumerate(zip(got, exp)):
                            read_node(nd, o, i, f"tree[{sl}][{q}]", True)
                        for q in range(0, len(exp), max(1, len(exp) // 3)):
                            add("node", oi, [exp[q]], got[q], "tree[slice]")
                    elif what == "iter":
                        nodes = list(tree)
                        chk(len(nodes) == n, "iter_len", f"iterating the tree yields {len(nodes)} nodes, expected {n}")
                        i = step["j"] % n
                        add("node", oi, [i], nodes[i], "iter(tree)")
                    elif what in ("parent", "children", "nbranch"):
                        cands = [h for h in handles if h["kind"] == "node" and owners[h["o"]]["kind"] == "tree"]
                        if not cands:
                            world.log(si, cur_op, "no node handle")
                            continue
                        h = cands[step["h"] % len(cands)]
                        oi = h["o"]
                        o = owners[oi]
                        m = o["m"]
                        i = h["ids"][0]
                        if what == "parent":
                            p = h["obj"].parent()
                            if m["pid"][i] == -1:
                                chk(p is None, "parent", f"parent() of the root is {p!r}")
                            else:
                                chk(p is not None, "parent", f"parent() of node {i} is None")
                                add("node", oi, [m["pid"][i]], p, "parent()")
                        elif what == "children":
                            ch = h["obj"].children()
                            exp = [c for c in range(len(m["id"])) if m["pid"][c] == i]
                            got = sorted(int(c.id) for c in ch)
                            chk(got == exp, "children", f"children() of node {i} are {got}, expected {exp}")
                            for c in ch[:3]:
                                add("node", oi, [int(c.idx)], c, "children()")
                        else:
                            br = h["obj"].branch()
                            ids = [int(v) for v in br.idx]
                            chk(i in ids and is_chain(m, ids), "branch_not_chain",
                                f"branch() of node {i} carries {ids}, not a parent->child chain through it")
                            add("branch", oi, ids, br, "node.branch()")
                    elif what in ("paths", "branches"):
                        objs = tree.get_paths() if what == "paths" else tree.get_branches()
                        for q in range(min(len(objs), 3)):
                            ob = objs[(step["j"] + q) % len(objs)]
                            ids = [int(v) for v in ob.idx]
                            chk(len(ids) >= 1 and all(0 <= v < n for v in ids) and is_chain(m, ids),
                                "path_not_chain", f"{what}: index array {ids} is not a parent->child chain")
                            add("path" if what == "paths" else "branch", oi, ids, ob, f"get_{what}")
                    elif what == "segs":
                        segs = tree.get_segments()
                        add("segs", oi, [v for c in range(1, n) for v in (m["pid"][c], c)], segs, "get_segments")
                        chk(len(segs) == n - 1, "tree_segments", f"get_segments: {len(segs)} segments for {n} nodes")
                        for q in range(min(len(segs), 3)):
                            c = 1 + (step["j"] + q) % (n - 1)
                            add("seg", oi, [m["pid"][c], c], segs[c - 1], "get_segments[k]")
                    elif what == "mixsegs":
                        # one Compartments list holding segments of several owners: the segments of two or
                        # three branches (each attached to its own Branch) and, sometimes, tree segments
                        from swcgeom.core import Compartments

                        brs = tree.get_branches()
                        members, pairs = [], []
                        for q in range(min(len(brs), 3)):
                            br = brs[(step["j"] + q) % len(brs)]
                            bids = [int(v) for v in br.idx]
                            for kk, sg in enumerate(br.get_segments()):
                                members.append(sg)
                                pairs += [bids[kk], bids[kk + 1]]
                        if step["i"] % 2 and n > 1:
                            tsegs = tree.get_segments()
                            c = 1 + abs(step["i"]) % (n - 1)
                            members.append(tsegs[c - 1])
                            pairs += [m["pid"][c], c]
                        if not members:
                            world.log(si, cur_op, "no segment")
                            continue
                        add("mixsegs", oi, pairs, Compartments(members), "Compartments(mixed owners)")
                    elif what == "handpath":
                        ids = [v % n for v in step["ids"]]
                        cls = Tree.Path if step["j"] % 2 else Path
                        add("path", oi, ids, cls(tree, ids), "Path(tree, ids)")
                    elif what == "handbranch":
                        # an ancestor chain ending at node i
                        i = abs(step["i"]) % n
                        ids = [i]
                        while m["pid"][ids[0]] != -1 and len(ids) < 1 + step["j"] % 6:
                            ids.insert(0, m["pid"][ids[0]])
                        cls = Tree.Branch if step["j"] % 2 else Branch
                        add("branch", oi, ids, cls(tree, np.array(ids, dtype=np.int32)), "Branch(tree, ids)")
                    elif what == "handseg":
                        if n < 2:
                            world.log(si, cur_op, "single node")
                            continue
                        c = 1 + abs(step["i"]) % (n - 1)
                        cls = Tree.Compartment if step["j"] % 2 else Compartment
                        add("seg", oi, [m["pid"][c], c], cls(tree, m["pid"][c], c), "Compartment(tree,p,c)")
                    world.log(si, cur_op, oi, len(handles))
                elif k == "index":
                    cands = [hi for hi, h in enumerate(handles) if h["kind"] in ("path", "branch", "seg")]
                    if not cands:
                        world.log(si, k, "no pathlike handle")
                        continue
                    hi = cands[step["h"] % len(cands)]
                    h = handles[hi]
                    o = owners[h["o"]]
                    ids = h["ids"]
                    n = len(ids)
                    what = f"{h['kind']}#{h['serial']}"
                    if "sl" in step:
                        sl = slice(*step["sl"])
                        exp = ids[sl]
                        got = h["obj"][sl]
                        chk(len(got) == len(exp), "slice_len", f"{what}[{sl}] has {len(got)} nodes, expected {len(exp)}")
                        for q, (nd, i) in enumerate(zip(got, exp)):
                            read_node(nd, o, i, f"{what}[{sl}][{q}]", False)
                        if exp:
                            # node handles obtained from a VIEW stay registered and are read again after every later
                            # step (never written through: the statement speaks of handles obtained from a tree)
                            add("vnode", h["o"], [exp[0]], got[0], f"{what}[slice][0]")
                        world.log(si, "index", h["serial"], "slice", len(exp))
                    else:
                        i = step["i"]
                        i = (abs(i) % n) if i >= 0 else -1 - (abs(i + 1) % n)
                        nd = h["obj"][i] if step["h"] % 3 else h["obj"].node(i)
                        read_node(nd, o, ids[i], f"{what}[{i}]", False)
                        add("vnode", h["o"], [ids[i]], nd, f"{what}[{i}]")
                        world.probe("c09.node_handle_of_a_view_kept")
                        if step["t"] % 2:
                            # a detached copy of a node reached through a view: equal content at creation
                            d = nd.detach()
                            for col in ATTRS:
                                got = float(getattr(d, col))
                                chk(got == float(o["m"][col][ids[i]]), "detach",
                                    f"{what}.node({i}).detach().{col} reads {got!r}, node {ids[i]} holds {o['m'][col][ids[i]]!r}")
                        world.log(si, "index", h["serial"], i)
                    deep_ix = hi
                elif k == "write":
                    cands = [h for h in handles if h["kind"] == "node" and owners[h["o"]]["kind"] == "tree"]
                    if not cands:
                        world.log(si, k, "no node handle")
                        continue
                    h = cands[step["h"] % len(cands)]
                    col = step["col"]
                    if col == "level" and "level" not in owners[h["o"]]["m"]:
                        col = "type"
                    val = step["val"] % 8 if col in ("type", "level") else f32(step["val"] / 4.0)
                    if col == "pid":
                        # re-parent node i to a node outside its own subtree (the root keeps no parent)
                        mm = owners[h["o"]]["m"]
                        i = h["ids"][0]
                        if i == 0:
                            world.log(si, k, "root keeps its parent")
                            continue
                        val = step["val"] % len(mm["id"])
                        q = val
                        while q != -1 and q != i:
                            q = mm["pid"][q]
                        if q == i:
                            val = 0
                    if step["via"] == "attr" and col != "level":
                        setattr(h["obj"], col, val)
                    else:
                        h["obj"][rn(owners[h["o"]], col)] = val
                    owners[h["o"]]["m"][col][h["ids"][0]] = val
                    if len(handles) >= 2:
                        wrote_with_handles = True
                    cur_op = f"write:{h['via'].split('[')[0].split('(')[0]}"
                    world.log(si, "write", h["serial"], col, val)
                elif k == "write_owner":
                    oi = step["t"] % len(owners)
                    o = owners[oi]
                    n = len(o["m"]["x"])
                    i = step["i"] % n
                    col = step["col"]
                    if col == "level" and "level" not in o["m"]:
                        col = "type"
                    val = step["val"] % 8 if col in ("type", "level") else f32(step["val"] / 4.0)
                    if "did" in o["m"] and step["val"] % 3 == 0:
                        # renumber a detached node in place
                        key = "id" if step["val"] % 2 else "pid"
                        o["obj"].ndata[key][0] = step["val"] % 1000
                        o["m"]["d" + key][0] = step["val"] % 1000
                        world.probe("c09.detached_node_renumbered")
                    if o["kind"] == "tree" and step["val"] % 5 == 0:
                        # the header comments are content too: edited in place on one side of a copy
                        o["obj"].comments.append(f"note {si}")
                        o.setdefault("comments", ["c"])
                        o["comments"] = o["comments"] + [f"note {si}"]
                    o["obj"].ndata[rn(o, col)][i] = val
                    o["m"][col][i] = val
                    if len(handles) >= 2:
                        wrote_with_handles = True
                    cur_op = f"write_owner:{o['kind']}:{o.get('made_by', 'initial')}"
                    world.log(si, "write_owner", oi, i, col, val)
                elif k == "derive":
                    from swcgeom.core import cat_tree, get_subtree

                    cands = [i for i, o in enumerate(owners) if o["kind"] == "tree" and "rgb" not in o]
                    if not cands:
                        world.log(si, k, "no plain tree")
                        continue
                    ai = cands[step["t"] % len(cands)]
                    A = owners[ai]
                    same = [i for i in cands if ("level" in owners[i]["m"]) == ("level" in A["m"])
                            and owners[i].get("level_name") == A.get("level_name")]
                    bi = ai if step["how"] == "cat_self" else same[step["t2"] % len(same)]
                    B = owners[bi]
                    na, nb = len(A["m"]["id"]), len(B["m"]["id"])
                    if sorted(A["m"]["id"]) != list(range(na)) or sorted(B["m"]["id"]) != list(range(nb)) or \
                            any(p >= i for i, p in enumerate(A["m"]["pid"])) or any(p >= i for i, p in enumerate(B["m"]["pid"])):
                        world.log(si, k, "operands not in sorted numbering")
                        continue
                    if step["how"] == "subtree":
                        res = get_subtree(A["obj"], step["n1"] % na)
                        made = "get_subtree"
                    else:
                        res = cat_tree(A["obj"], B["obj"], step["n1"] % na, step["n2"] % nb)
                        made = "cat_tree"
                    cur_op = f"derive:{made}"
                    lname = A.get("level_name", "level")
                    raw = {c: np.asarray(res.ndata[c]).reshape(-1).tolist() for c in ATTRS + ["id", "pid"]}
                    m2 = {c: ([int(v) for v in raw[c]] if c in ("type", "id", "pid") else [float(v) for v in raw[c]]) for c in raw}
                    if "level" in A["m"] and lname in res.ndata:
                        m2["level"] = [int(v) for v in np.asarray(res.ndata[lname]).reshape(-1)]
                    chk(len({len(v) for v in m2.values()}) == 1, "tree_read", f"{made}: columns of different lengths")
                    owners.append({"kind": "tree", "obj": res, "m": m2, "idpid": True, "made_by": made,
                                   "comments": list(res.comments), "level_name": lname})
                    world.probe("c09.owner_built_by_the_library")
                    world.log(si, "derive", made, len(m2["id"]))
                elif k == "copy":
                    oi = step["t"] % len(owners)
                    o = owners[oi]
                    c = o["obj"].copy()
                    chk(type(c) is type(o["obj"]), "copy", f"copy() returned {type(c).__name__}")
                    chk(c is not o["obj"], "copy", "copy() returned the object itself")
                    chk(list(c.comments) == list(o["obj"].comments) and c.source == o["obj"].source, "copy",
                        "copy() lost comments/source")
                    owners.append({"kind": o["kind"], "obj": c, "m": copy.deepcopy(o["m"]), "idpid": o["idpid"],
                                   "made_by": "copy", "comments": list(o.get("comments", ["c"])),
                                   "level_name": o.get("level_name", "level")})
                    if "rgb" in o:
                        owners[-1]["rgb"] = [list(r) for r in o["rgb"]]
                    world.log(si, "copy", oi)
                elif k == "detach":
                    cands = [h for h in handles if h["kind"] in ("node", "path", "branch", "seg")]
                    if not cands:
                        world.log(si, k, "no handle")
                        continue
                    h = cands[step["h"] % len(cands)]
                    o = owners[h["o"]]
                    d = h["obj"].detach()
                    cur_op = f"detach:{h['kind']}"
                    m = {col: [o["m"][col][i] for i in h["ids"]] for col in attrs_of(o)}
                    if h["kind"] == "node":
                        # a detached node is a one-node table of its own: id 0, no parent - and its id / pid cells
                        # are its own too (BranchTreeAssembler renumbers detached nodes in place)
                        m["did"], m["dpid"] = [int(d["id"])], [int(d["pid"])]
                    chk(d is not h["obj"], "detach", "detach() returned the view itself")
                    owners.append({"kind": "dict", "obj": d.attach, "m": m, "idpid": False,
                                   "made_by": f"detach:{h['kind']}", "level_name": o.get("level_name", "level")})
                    if "rgb" in o:
                        owners[-1]["rgb"] = [list(o["rgb"][i]) for i in h["ids"]]
                    add(h["kind"], len(owners) - 1, list(range(len(h["ids"]))), d, f"detach:{h['kind']}")
                    world.log(si, "detach", h["serial"], h["kind"])
                elif k == "idwrite":
                    # `id` is an attribute like any other: a write through a node handle is visible in the owner, and
                    # positional access (index, slice, iteration) keeps meaning positions - SWC files number from 1,
                    # callers renumber. The old number is written back before anything else happens.
                    oi = tree_owner(step["t"])
                    o = owners[oi]
                    tree, m = o["obj"], o["m"]
                    n = len(m["id"])
                    i = step["i"] % n
                    new = n + 10 + step["val"]
                    nd = tree.node(i)
                    nd.id = new
                    try:
                        chk(int(tree.id()[i]) == new and int(tree["id"][i]) == new, "tree_read", f"id written through a node handle is not visible in the owner")
                        sl = slice(*step["sl"])
                        exp = list(range(n))[sl]
                        got = tree[sl]
                        chk(len(got) == len(exp), "slice_len", f"tree[{sl}] has {len(got)} nodes, expected {len(exp)} (after an id write)")
                        for q, (hnd, j) in enumerate(zip(got, exp)):
                            for col in ("x", "y", "z", "r"):
                                chk(float(hnd[col]) == float(m[col][j]), "node_read",
                                    f"tree[{sl}][{q}].{col} reads {float(hnd[col])!r}, position {j} holds {m[col][j]!r} (after node {i} was renumbered)")
                        for j in (0, n - 1, i):
                            chk(float(tree[j].x) == float(m["x"][j]), "node_read", f"tree[{j}].x after an id write")
                    finally:
                        nd.id = m["id"][i]
                    world.log(si, "idwrite", oi, i, new)
                elif k == "scribble":
                    # the caller edits a CONTAINER the library returned (a list of segments, paths, branches or
                    # children) and asks again: the views are windows onto the tree, not onto the caller's list
                    what, how = step["what"], step["how"]
                    cur_op = f"scribble:{what}"

                    def scribble(lst):
                        if how == "pop" and len(lst):
                            lst.pop()
                        elif how == "reverse":
                            lst.reverse()
                        elif how == "clear":
                            del lst[:]
                        elif how == "extend":
                            lst.extend(list(lst)[:2])
                        elif how == "del0" and len(lst):
                            del lst[0]
                        elif how == "double":
                            lst += list(lst)

                    if what == "branch_segs":
                        cands = [h for h in handles if h["kind"] == "branch" and owners[h["o"]]["kind"] == "tree"]
                        if not cands:
                            world.log(si, cur_op, "no branch handle")
                            continue
                        h = cands[step["h"] % len(cands)]
                        scribble(h["obj"].get_segments())
                        read_branch_segments(h["obj"], owners[h["o"]], h["ids"], f"branch#{h['serial']} after the caller edited the list it got")
                    else:
                        oi = tree_owner(step["t"])
                        o = owners[oi]
                        tree, m = o["obj"], o["m"]
                        n = len(m["id"])
                        if what == "tree_segs":
                            scribble(tree.get_segments())
                            segs = tree.get_segments()
                            chk(len(segs) == n - 1, "tree_segments", f"get_segments after the caller edited the list it got: {len(segs)} segments for {n} nodes")
                            for c in range(1, n):
                                read_pathlike(segs[c - 1], o, [m["pid"][c], c], f"get_segments()[{c - 1}]", False)
                        elif what in ("paths", "branches"):
                            get = tree.get_paths if what == "paths" else tree.get_branches
                            first = get()
                            exp = sorted(tuple(int(v) for v in ob.idx) for ob in first)
                            scribble(first)
                            got = sorted(tuple(int(v) for v in ob.idx) for ob in get())
                            chk(got == exp, "path_not_chain", f"get_{what}() after the caller edited the list it got: {got[:4]} instead of {exp[:4]}")
                        else:
                            i = step["i"] % n if "i" in step else step["h"] % n
                            nd = tree.node(i)
                            scribble(nd.children())
                            exp = [c for c in range(n) if m["pid"][c] == i]
                            got = sorted(int(c.id) for c in tree.node(i).children())
                            got2 = sorted(int(c.id) for c in nd.children())
                            chk(got == exp and got2 == exp, "children", f"children() of node {i} after the caller edited the list it got: {got} / {got2}, expected {exp}")
                    world.log(si, cur_op, how)
                elif k == "adj":
                    oi = tree_owner(step["t"])
                    o = owners[oi]
                    m = o["m"]
                    n = len(m["id"])
                    a = o["obj"].get_adjacency_matrix().toarray()
                    exp = np.zeros((n, n), dtype=np.int64)
                    for c in range(1, n):
                        exp[m["pid"][c], c] += 1
                    chk(a.shape == (n, n) and (np.asarray(a, dtype=np.int64) == exp).all(), "adjacency",
                        "get_adjacency_matrix is not the (parent, child) incidence of the tree")
                    world.log(si, "adj", oi)
                # drop owners nobody refers to when there are many (keep trees 0..k and anything referenced)
                if len(owners) > 8:
                    used = {h["o"] for h in handles} | {i for i, o in enumerate(owners) if o["kind"] == "tree" and "made_by" not in o}
                    keep = [i for i in range(len(owners)) if i in used or i >= len(owners) - 3]
                    remap = {old: new for new, old in enumerate(keep)}
                    owners[:] = [owners[i] for i in keep]
                    for h in handles:
                        h["o"] = remap[h["o"]]
                sweep(owners, handles, deep_ix)
                states.append(f"{k}|{kind_bag(handles)}|{min(len(owners), 6)}")
        except Mismatch as e:
            violation = {"tag": e.tag, "op": cur_op, "detail": e.detail[:400]}
            world.log("violation", e.tag, cur_op)
        except Exception as e:  # noqa: BLE001 - the library raised on an admissible access
            violation = {"tag": "raised", "op": f"{cur_op}/{type(e).__name__}", "detail": f"{type(e).__name__}: {e}"[:400]}
            world.log("violation", "raised", cur_op, type(e).__name__)
        digest = world.digest()
        probes = dict(world.probes)
    return {"violation": violation, "digest": digest, "steps": steps, "faults": {}, "probes": probes,
            "nontrivial": steps >= 3 and wrote_with_handles, "config": "fault_free", "states": states}


# ---------------------------------------------------------------------------


def _drop_leaf(program: dict, ti: int, i: int):
    t = program["trees"][ti]
    n = len(t["pid"])
    if n <= 1 or i == 0 or i in t["pid"]:
        return None
    p = copy.deepcopy(program)
    for k in p["trees"][ti]:
        if k not in ("strided", "level_name", "omit"):
            del p["trees"][ti][k][i]
    p["trees"][ti]["pid"] = [(q - 1 if q > i else q) for q in p["trees"][ti]["pid"]]
    return p


def shrink_candidates(program: dict):
    yield from shrink.drop_from_list(program, ["steps"], min_len=1)
    yield from shrink.drop_from_list(program, ["trees"], min_len=1)
    for ti, t in enumerate(program["trees"]):
        for i in range(len(t["pid"]) - 1, 0, -1):
            c = _drop_leaf(program, ti, i)
            if c is not None:
                yield c
    for ti, t in enumerate(program["trees"]):
        for key in ("strided", "level", "rgb", "omit"):
            if key in t:
                q = copy.deepcopy(program)
                del q["trees"][ti][key]
                if key == "level":
                    q["trees"][ti].pop("level_name", None)
                yield q
    for si, s in enumerate(program["steps"]):
        for key in ("t", "h", "i", "j"):
            if key in s and isinstance(s[key], int) and s[key] != 0:
                yield shrink.with_value(program, ["steps", si, key], 0)
        if "ids" in s:
            yield from shrink.drop_from_list(program, ["steps", si, "ids"], min_len=1)
        if "sl" in s and s["sl"] != [None, None, None]:
            yield shrink.with_value(program, ["steps", si, "sl"], [None, None, None])


FINDING_PREDICATES: dict = {}
