"""C19 - population containers index correctly and load each file at most once, on demand.

System under simulation: Population / Populations / ChainTrees / slices / map /
PopulationTransform on top of a simulated disk (directory listings come back in a
seeded permutation, every open is counted per path), with storage faults injected
between listing and first access (file deleted, file made malformed, EIO inside a
lazy read), string-set iteration order varied through PYTHONHASHSEED (one value per
shard, recorded in the replay file) and the process pool replaced by SimPool whose
completion order is decided by the run's schedule.
"""

from __future__ import annotations

import copy
import os

from models import pop_model
from simkit import shrink, simpool
from simkit.prng import Prng
from simkit.world import StreamPlan, World

PROP = "C19"
LEVEL = "fault_enumeration"
HASHSEED_VARIES = True
RUN_WALL_S = 90  # a run takes ~30 ms; a pool that is never pumped must not stall the batch for a minute
TIERS = {"quick": 2400, "thorough": 60000}
LOCALE_VARIES = True  # three of the sixteen shards run in a non-UTF-8 locale (simkit/runner.py: hashseed_for)
RULE = (
    "one run = one directory layout (1-3 roots; nested, empty and trap directories; 0-12 .swc files per root "
    "each with a unique signature; other extensions) + a history of up to 12 operations (build population, len, "
    "index incl. negative/out of range, slice then index, full/partial iteration, Populations rows, to_population, "
    "ChainTrees with empty members, map through the stub pool, PopulationTransform) + faults (listing permutation "
    "at every scandir, file deleted / made malformed after listing, EIO in a lazy read, pool completion order). "
    "Distinct = distinct event-log digest; non-trivial = at least one tree was loaded through a container and, in "
    "faulting configurations, at least one fault fired."
)
STATE_MEASURE = "distinct (handle kind, operation, outcome, cache-fill bucket) tuples"
COMPONENTS = {
    "real": ["swcgeom.core.population (LazyLoadingTrees, ChainTrees, NestTrees, Population, Populations)",
             "swcgeom.transforms.population.PopulationTransform", "Tree.from_swc and the whole SWC reader",
             "os.walk", "concurrent.futures.Executor.map (stdlib)", "pickle", "tmpfs files under the SimDisk root"],
    "stub": ["concurrent.futures.ProcessPoolExecutor -> simkit.simpool.SimPool (seeded completion order, pickled "
             "arguments/results; the tasks of a pool run one at a time in ONE real worker process forked at the pool's "
             "first task, which stands for all its workers)"],
    "replaced_leaf_functions": ["builtins.open", "io.open", "os.scandir", "os.listdir",
                                "concurrent.futures.as_completed", "concurrent.futures.wait"],
}
ASSUMPTIONS = [
    "a tree is identified by its `source` path and the signature stored in its first x coordinate",
    "'the i-th file' is the container's own, stable order: the oracle checks that indices form a bijection onto "
    "the matching files and never change, not a particular order",
    "an access that raised is not counted towards 'at most once' and is not retried",
    "file names: extension exactly '.swc' with a non-empty stem counts as matching",
]

NAMES = ["a.swc", "b.swc", "n1.swc", "sub/c.swc", "sub/d.swc", "sub/deep/e.swc", "x/y/z/f.swc", "a.b.swc",
         "g h.swc", "sub/n1.swc", "zz.swc", "m.swc"]
OTHER = ["notes.txt", "a.swc.bak", "readme", "sub/data.eswc", "img.tif", "trap.swc/inner.txt", "swc"]
EMPTY_DIRS = ["empty", "sub/empty2", "x/void"]


# ---------------------------------------------------------------------------
# generation


def generate(rng: Prng, tier: str) -> dict:
    w = rng.stream("workload")
    fp = rng.stream("fault.plan")
    faulting = rng.stream("config").chance(0.6)
    n_roots = w.weighted([(1, 4), (2, 4), (3, 2)])
    files: list[str] = []
    for r in range(n_roots):
        k = w.choice([0, 1, 1, 2, 3, 4, 6, 9, 12]) if tier == "quick" or w.chance(0.9) else w.randint(13, 40)
        names = list(NAMES) + [f"gen/t{i:02d}.swc" for i in range(max(0, k - len(NAMES)))]
        if n_roots > 1 and r > 0 and w.chance(0.7):
            # overlapping but different file sets across roots
            prev = [f.split("/", 1)[1] for f in files if f.startswith("r0/")]
            pick = [p for p in prev if w.chance(0.7)] + [n for n in w.sample(names, min(k, len(names))) if w.chance(0.4)]
            pick = sorted(set(pick))
        else:
            pick = sorted(w.sample(names, min(k, len(names))))
        files += [f"r{r}/{p}" for p in pick]
        for o in OTHER:
            if w.chance(0.25) and not (o.startswith("trap.swc/") and f"r{r}/trap.swc" in files):
                files.append(f"r{r}/{o}")
        if w.chance(0.15):
            files.append(f"r{r}/trap.swc/in.swc")
        if not any(f.startswith(f"r{r}/trap.swc/") for f in files) and rng.stream(f"trapfile{r}").chance(0.2):
            files.append(f"r{r}/trap.swc")  # a regular file where another root may have a folder of that name
        hid = rng.stream(f"hidden{r}")
        if hid.chance(0.2):
            # hidden folders and files (a name starting with a dot), next to a visible twin of the same name
            files.append(f"r{r}/.bak/x.swc")
            if hid.chance(0.6):
                files.append(f"r{r}/bak/x.swc")
            if hid.chance(0.3):
                files.append(f"r{r}/..weird/.h.swc")
    dirs = [f"r{r}/{d}" for r in range(n_roots) for d in EMPTY_DIRS if w.chance(0.3)]
    listing = []
    if faulting:
        listing = [[fp.below(1000) for _ in range(fp.randint(2, 7))] for _ in range(fp.randint(1, 6))]
    ops = []
    n_ops = w.randint(2, 12)
    for _ in range(n_ops):
        kind = w.weighted([("pop", 4), ("len", 2), ("idx", 8), ("slice", 3), ("iter", 3), ("pops", 2),
                           ("topop", 2), ("chain", 2), ("map", 2), ("ptrans", 1),
                           ("fault", 3 if faulting else 0)])
        h = w.below(64)
        if kind == "pop":
            ops.append({"op": "pop", "root": w.below(n_roots), "slash": w.chance(0.15)})
        elif kind == "len":
            ops.append({"op": "len", "h": h})
        elif kind == "idx":
            ops.append({"op": "idx", "h": h, "i": w.randint(-14, 14) if w.chance(0.8) else w.choice([0, -1, 10**6, -10**6])})
        elif kind == "slice":
            ops.append({"op": "slice", "h": h, "a": w.choice([None, 0, 1, 2, -1, -3, 5]),
                        "b": w.choice([None, 0, 1, 3, -1, 8, 100]), "c": w.choice([None, None, 1, 2, 3, -1, -2])})
            vw = rng.stream(f"view{len(ops)}")
            if vw.chance(0.4):
                # a population built on that slice, sliced again (open, negative and clamped bounds) and indexed
                ops.append({"op": "wrap", "h": -1})
                ops.append({"op": "slice", "h": -1, "a": vw.choice([None, 1, -2, -6, 0]), "b": vw.choice([None, -1, 2, 100]),
                            "c": vw.choice([None, None, -1, 2])})
                ops.append({"op": "idx", "h": -1, "i": vw.randint(-3, 3)})
        elif kind == "iter":
            ops.append({"op": "iter", "h": h, "m": w.choice([None, None, 1, 2, 5])})
        elif kind == "pops":
            k = w.randint(1, n_roots)
            ops.append({"op": "pops", "roots": w.sample(list(range(n_roots)), k), "slash": [w.chance(0.15) for _ in range(k)],
                        "intersect": not w.chance(0.25)})
            if ops[-1]["intersect"] is False and w.chance(0.6):
                # rows matched by index are usually consumed by iterating to the end: the longer members must not be
                # asked for an element beyond the shortest length
                ops.append({"op": "iter", "h": -1, "m": None})
        elif kind == "topop":
            ops.append({"op": "topop", "h": h})
        elif kind == "chain":
            ops.append({"op": "chain", "hs": [w.below(64) for _ in range(w.randint(1, 3))],
                        "empties": [w.below(4) for _ in range(w.choice([0, 0, 1, 2]))]})
        elif kind == "map":
            ops.append({"op": "map", "h": h, "max_worker": w.choice([None, 1, 2, 3, 8]), "verbose": w.chance(0.1)})
        elif kind == "ptrans":
            ops.append({"op": "ptrans", "h": h})
            if w.chance(0.5):
                ops.append({"op": "wrap", "h": w.below(64)})  # Population(view): a population backed by a slice
        else:
            ops.append({"op": "fault", "kind": fp.choice(["corrupt", "delete", "eio", "truncate"]),
                        "f": fp.below(64), "at": round(fp.random(), 4)})
    hp = rng.stream("ptrans_map_history")
    ops2 = []
    for o in ops:
        ops2.append(o)
        if o["op"] == "ptrans":
            # ONE PopulationTransform object per run, applied again and again - also to its own result (a pipeline
            # stage used twice): every application transforms the trees it is given
            o["shared"] = hp.chance(0.6)
            o["delta"] = hp.choice([1, 1, 2, 3])
            if hp.chance(0.5):
                ops2.append({"op": "ptrans", "h": -1, "shared": True, "delta": hp.choice([1, 2, 5])})
                if hp.chance(0.5):
                    ops2.append({"op": "idx", "h": -1, "i": hp.randint(-3, 3)})
            elif o["shared"] and hp.chance(0.6):
                # a sweep: apply, change the parameter, apply again - and only then look at the first result
                o["defer"] = True
                ops2.append({"op": "ptrans", "h": o["h"], "shared": True, "delta": o["delta"] + hp.choice([1, 3])})
                ops2.append({"op": "idx", "h": -2, "i": hp.choice([1, -1, 2])})
                ops2.append({"op": "idx", "h": -2, "i": hp.choice([0, 1, -2])})
        elif o["op"] == "map" and not o.get("verbose"):
            # a parameter sweep: the mapped function reads a module-level parameter the caller changes between two
            # map calls with the same worker count
            o["param"] = hp.randint(1, 9)
            if hp.chance(0.6):
                ops2.append(dict(o, param=o["param"] + hp.randint(1, 9)))
            if hp.chance(0.35):
                # the mapped function scribbles on the tree it is given (its own copy, across a process boundary);
                # the population is asked for the same trees afterwards
                o["scribble"] = True
                o["max_worker"] = hp.choice([1, 1, o["max_worker"]])
                ops2.append({"op": "idx", "h": o["h"], "i": hp.randint(-3, 3)})
                ops2.append({"op": "iter", "h": o["h"], "m": hp.choice([None, 2])})
    ops = ops2
    # a run always starts with something to talk about
    if not any(o["op"] in ("pop", "pops") for o in ops[:2]):
        ops.insert(0, {"op": "pop", "root": 0} if w.chance(0.7) else {"op": "pops", "roots": list(range(n_roots))})
    pool_sched = [fp.below(8) for _ in range(fp.randint(1, 6))] if faulting else []
    stream = {}
    if faulting and fp.chance(0.4):
        stream = {"chunks": [fp.choice([1, 3, 17, 4096])], "buffer_size": fp.choice([1, 7, 512, 8192])}
    # a name cannot be a regular file and a folder in the same root
    files = [f for f in files if not any(g.startswith(f + "/") for g in files)]
    hg = rng.stream("huge")
    if hg.chance(0.0015):
        # more files than any plausible cache bound, all loaded by one full iteration, the first ones asked for again
        n_roots, dirs, listing, stream, pool_sched = 1, [], [], {}, []
        files = [f"r0/h{i:04d}.swc" for i in range(1040 + hg.below(120))]
        ops = [{"op": "pop", "root": 0, "slash": False}, {"op": "iter", "h": 0, "m": None}, {"op": "idx", "h": 0, "i": 0},
               {"op": "idx", "h": 0, "i": 7}, {"op": "idx", "h": 0, "i": -1}, {"op": "iter", "h": 0, "m": 5}]
        faulting = False
    opts = rng.stream("read_opts")
    # read options forwarded to every lazy read: with sort_nodes the files list their rows out of order with sparse
    # ids, so a read that loses the option hands out a tree that is not the file's tree
    read_opts = {"sort_nodes": True} if opts.chance(0.3) else {}
    return {"prop": PROP, "n_roots": n_roots, "files": sorted(set(files)), "dirs": dirs, "listing": listing, "ops": ops,
            "read_opts": read_opts,
            "pool_sched": pool_sched, "stream": stream, "config": "faulting" if faulting else "fault_free"}


# ---------------------------------------------------------------------------
# functions that cross the (simulated) process boundary must be importable


def ident_then_scribble(tree):
    """A mapped function that uses its argument as scratch space: in a worker process that is the worker's copy."""
    out = ident_of(tree)
    tree.ndata["x"][0] += 0.5
    tree.ndata["r"][:] = 77.0
    return out


MAP_PARAM = 0  # read by ident_of in the (simulated) worker process; set by the caller before a map call


def ident_of(tree):
    return (tree.source, float(tree.x()[0]), int(len(tree)) + 1000 * MAP_PARAM)


def _make_mark_transform():
    from swcgeom.transforms.base import Transform

    class Mark(Transform):
        """Tree -> Tree: a copy whose radii are increased by `delta` (a parameter the caller may change between
        applications, as in a parameter sweep)."""

        delta = 1.0

        def __call__(self, x):
            y = x.copy()
            y.ndata["r"] = y.ndata["r"] + float(self.delta)
            return y

    return Mark()


# ---------------------------------------------------------------------------
# execution


class Base:
    def __init__(self, hid, root, files, sigs):
        self.hid, self.root = hid, root
        self.files = set(files)
        self.sig = dict(sigs)
        self.known: dict[int, str] = {}
        self.loaded: set[str] = set()
        self.n = len(self.files)


class Handle:
    def __init__(self, kind, obj, n, **kw):
        self.kind, self.obj, self.n = kind, obj, n
        self.__dict__.update(kw)

    def bases(self):
        if self.kind == "P":
            return [self.base]
        if self.kind in ("S", "T", "W"):
            return self.parent.bases()
        if self.kind in ("C", "CP"):
            out = []
            for m in self.members:
                if m is not None:
                    for b in m.bases():
                        if b not in out:
                            out.append(b)
            return out
        if self.kind == "PS":
            return list(self.member_bases)
        return []

    def resolve(self, j):
        """Normalised index -> (base, index in base, transformed?)"""
        if self.kind == "P":
            return (self.base, j, False)
        if self.kind == "S":
            return self.parent.resolve(self.idxs[j])
        if self.kind == "T":
            b, k, amount = self.parent.resolve(j)
            return (b, k, float(amount) + float(getattr(self, "delta", 1.0)))  # what the transforms added so far
        if self.kind == "W":
            return self.parent.resolve(j)
        if self.kind in ("C", "CP"):
            lens = [(m.n if m is not None else 0) for m in self.members]
            m, off = pop_model.chain_locate(lens, j)
            return self.members[m].resolve(off)
        raise AssertionError(self.kind)


class Violation(Exception):
    def __init__(self, tag, op, detail):
        super().__init__(detail)
        self.v = {"tag": tag, "op": op, "detail": detail}


class Sim:
    def __init__(self, program, world: World):
        self.p, self.w = program, world
        self.layout: dict = {}
        self.sig_of: dict = {}
        self.bad: set[str] = set()  # disk-relative paths whose read must fail
        self.handles: list[Handle] = []
        self.states: list[str] = []
        self.loaded_any = False
        self.steps = 0
        sig = 100
        for f in program["files"]:
            sig += 1
            self.layout[f] = ("file", sig)
            self.sig_of[f] = sig
            if f.endswith(".swc") and program.get("read_opts", {}).get("sort_nodes"):
                body = f"# file {f}\n9 3 {sig} 2 0 0.5 3\n7 1 {sig} 0 0 1 -1\n3 3 {sig} 1 0 1 7\n"
            elif f.endswith(".swc"):
                body = f"# file {f}\n1 1 {sig} 0 0 1 -1\n2 3 {sig} 1 0 1 1\n3 3 {sig} 2 0 0.5 2\n"
            else:
                body = "not an swc file\n"
            world.put(f, body.encode())
        for d in program["dirs"]:
            world.mkdir(d)
            self.layout[d] = ("dir",)
        for r in range(program.get("n_roots", 3)):
            world.mkdir(f"r{r}")
        world.listing_perms = [list(k) for k in program.get("listing", [])]
        if program.get("stream"):
            world.default_read_plan = StreamPlan.from_json(program["stream"])

    # -- helpers -------------------------------------------------------------
    def pick(self, h, kinds=None):
        cands = [x for x in self.handles if kinds is None or x.kind in kinds]
        if not cands:
            return None
        return cands[h % len(cands)]

    def identify(self, tree, slot, op):
        """Check that `tree` is what `slot` must hold; returns the disk-relative path."""
        base, j, transformed = slot
        rel = self.w.rel(tree.source) if isinstance(tree.source, str) and tree.source else None
        if rel is None or not rel.startswith(base.root + "/"):
            raise Violation("wrong_tree", op, f"tree source {tree.source!r} is not a file of {base.root}")
        rp = rel[len(base.root) + 1:]
        if rp not in base.files:
            raise Violation("wrong_tree", op, f"{rel} is not a matching file of the population")
        if float(tree.x()[0]) != float(base.sig[rp]):
            raise Violation("wrong_tree", op, f"tree with source {rel} carries signature {float(tree.x()[0])}")
        if [int(v) for v in tree.pid()] != [-1, 0, 1] or [float(v) for v in tree.y()] != [0.0, 1.0, 2.0] \
                or [int(v) for v in tree.type()] != [1, 3, 3]:
            raise Violation("wrong_tree", op, f"tree {rel} is not the file's tree under the population's read options: "
                            f"pid {[int(v) for v in tree.pid()]}, y {[float(v) for v in tree.y()]}")
        want_r = 1.0 + float(transformed)  # every application of the marking transform adds its delta of that moment
        if float(tree.r()[0]) != want_r:
            raise Violation("wrong_tree", op, f"tree {rel}: radius {float(tree.r()[0])}, expected {want_r}")
        if j in base.known:
            if base.known[j] != rp:
                raise Violation("wrong_tree", op, f"index {j} returned {rp} but returned {base.known[j]} before")
        else:
            if rp in base.known.values():
                raise Violation("wrong_tree", op, f"indices {j} and another both return {rp}")
            base.known[j] = rp
        return base, rp

    def settle(self, mark, returned, raised, op, construction_bases=()):
        """The open ledger for one operation.

        returned: list of (base, relpath) of every tree handed out by the operation.
        """
        opens = self.w.open_log[mark:]
        need: dict[str, int] = {}
        for base, rp in returned:
            if rp not in base.loaded:
                need[f"{base.root}/{rp}"] = need.get(f"{base.root}/{rp}", 0) + 1
                base.loaded.add(rp)
                self.loaded_any = True
        got: dict[str, int] = {}
        for rel in opens:
            got[rel] = got.get(rel, 0) + 1
        # construction may probe one file per new base
        for base in construction_bases:
            for rel in list(got):
                if rel.startswith(base.root + "/") and rel[len(base.root) + 1:] in base.files \
                        and got[rel] > need.get(rel, 0):
                    rp = rel[len(base.root) + 1:]
                    if rel in self.bad:
                        got[rel] -= 1  # a probe that failed
                    elif rp not in base.loaded:
                        base.loaded.add(rp)
                        got[rel] -= 1
                        self.w.probe("c19.probe_at_construction")
                    break
        for rel, k in got.items():
            want = need.get(rel, 0)
            if k > want:
                if raised and rel in self.bad and k - want <= 1:
                    continue  # the failing read of a damaged file
                if want == 0:
                    raise Violation("eager_load", op, f"{rel} was opened although its tree was not requested"
                                    if not any(rel == f"{b.root}/{r}" for b, r in returned) else
                                    f"{rel} was opened again although it had been loaded")
                raise Violation("reload", op, f"{rel} opened {k} times for {want} first request(s)")
        for rel, want in need.items():
            if got.get(rel, 0) < want:
                # the tree did not come from a read in this step although the model says it was never loaded:
                # it was loaded earlier, before being requested
                raise Violation("eager_load", op, f"{rel} was handed out without a read in this step: loaded before requested")

    def settle_failed_row(self, h: Handle, j: int, mark: int, op: str) -> None:
        """A row access that raised: the members read before the damaged one stay loaded."""
        opens = self.w.open_log[mark:]
        rps = set()
        returned = []
        for rel in opens:
            b = next((b for b in h.member_bases if rel.startswith(b.root + "/")), None)
            if b is None:
                raise Violation("eager_load", op, f"{rel} was opened although its tree was not requested")
            rp = rel[len(b.root) + 1:]
            rps.add(rp)
            if rel not in self.bad:
                if j in b.known and b.known[j] != rp:
                    raise Violation("wrong_tree", op, f"row {j}: {rp} read, but {b.known[j]} before")
                b.known.setdefault(j, rp)
                returned.append((b, rp))
        if len(rps) > 1 and h.inter is not None:
            raise Violation("eager_load", op, f"a failing row access opened files of several rows: {sorted(rps)}")
        self.settle(mark, returned, True, op)

    def access(self, h: Handle, i: int, op: str):
        """One indexing step on handle h with raw index i; returns list[(base, rp)]"""
        if h.kind == "PS" and h.inter is None:
            # matched by index: a row is defined for 0 <= i < shortest length only (a negative or larger index means
            # a different element in every member, and the statement says nothing about it)
            if h.n == 0:
                return "skip"
            i = i % h.n
        j = pop_model.norm_index(i, h.n)
        mark = len(self.w.open_log)
        try:
            res = h.obj[i]
        except Exception as e:  # noqa: BLE001
            if j is None:
                if not isinstance(e, IndexError):
                    raise Violation("wrong_exception", op, f"index {i} of {h.n}: {type(e).__name__} instead of IndexError")
                self.settle(mark, [], True, op)
                return "IndexError"
            if self.may_fail(h, j):
                if h.kind == "PS":
                    self.settle_failed_row(h, j, mark, op)
                else:
                    self.settle(mark, [], True, op)
                self.w.probe("c19.bad_file_raised_on_request")
                return f"raised:{type(e).__name__}"
            raise Violation("unexpected_exception", op, f"index {i} of {h.n}: {type(e).__name__}: {e}"[:300])
        if j is None:
            raise Violation("index_out_of_range_accepted", op, f"index {i} of a container of length {h.n} returned a value")
        returned = []
        if h.kind == "PS":
            if not isinstance(res, list) or len(res) != len(h.member_bases):
                raise Violation("row_mismatch", op, f"row has {len(res) if isinstance(res, list) else type(res)} trees for {len(h.member_bases)} roots")
            rps = []
            for b, t in zip(h.member_bases, res):
                returned.append(self.identify(t, (b, j, False), op))
                rps.append(returned[-1][1])
            if h.inter is not None:
                if len(set(rps)) != 1:
                    raise Violation("row_mismatch", op, f"row {j} holds files with different relative paths: {rps}")
                if rps[0] not in h.inter:
                    raise Violation("row_mismatch", op, f"{rps[0]} is not common to all roots")
        else:
            returned.append(self.identify(res, h.resolve(j), op))
        for base, rp in returned:
            if f"{base.root}/{rp}" in self.bad and rp not in base.loaded:
                raise Violation("bad_file_accepted", op, f"{base.root}/{rp} is damaged but a tree was returned")
        self.settle(mark, returned, False, op)
        return "ok"

    def may_fail(self, h: Handle, j: int) -> bool:
        """Some not-yet-loaded damaged file could be at index j of h."""
        slots = [h.resolve(j)] if h.kind != "PS" else [(b, j, False) for b in h.member_bases]
        for base, k, _ in slots:
            if k in base.known:
                rp = base.known[k]
                if f"{base.root}/{rp}" in self.bad and rp not in base.loaded:
                    return True
                continue
            for rp in base.files:
                if f"{base.root}/{rp}" in self.bad and rp not in base.loaded and rp not in base.known.values():
                    return True
        return False

    def any_bad_unloaded(self, bases) -> bool:
        return any(f"{b.root}/{rp}" in self.bad and rp not in b.loaded for b in bases for rp in b.files)

    def new_base(self, root: str) -> Base:
        files = pop_model.matching(self.layout, root)
        return Base(len(self.handles), root, files, {rp: self.sig_of[f"{root}/{rp}"] for rp in files})

    def fill(self, h: Handle) -> str:
        bs = h.bases()
        tot = sum(b.n for b in bs) or 1
        return str(min(3, 4 * sum(len(b.loaded) for b in bs) // tot))

    # -- operations ------------------------------------------------------------
    def step(self, op: dict) -> None:
        from swcgeom.core import ChainTrees, Population, Populations
        from swcgeom.transforms import PopulationTransform

        w = self.w
        kind = op["op"]
        self.steps += 1
        outcome = "skip"
        hk = "-"
        if kind == "pop":
            root = f"r{op['root']}"
            base = self.new_base(root)
            mark = len(w.open_log)
            try:
                obj = Population.from_swc(w.path(root) + ("/" if op.get("slash") else ""), **self.p.get("read_opts", {}))
            except Exception as e:  # noqa: BLE001
                if self.any_bad_unloaded([base]):
                    self.settle(mark, [], True, "Population.from_swc", [base])
                    outcome = "raised"
                else:
                    raise Violation("unexpected_exception", "Population.from_swc", f"{type(e).__name__}: {e}"[:300])
            else:
                self.settle(mark, [], False, "Population.from_swc", [base])
                h = Handle("P", obj, base.n, base=base)
                self.handles.append(h)
                self.check_len(h, "Population.from_swc")
                outcome, hk = "ok", "P"
        elif kind == "pops":
            roots = [f"r{r}" for r in op["roots"]]
            bases = [self.new_base(r) for r in roots]
            by_index = op.get("intersect") is False
            inter = pop_model.intersection(self.layout, roots)
            if not by_index:
                for b in bases:
                    b.files = set(inter)
                    b.n = len(inter)
            mark = len(w.open_log)
            try:
                spelled = [w.path(r) + ("/" if sl else "") for r, sl in zip(roots, op.get("slash") or [False] * len(roots))]
                obj = Populations.from_swc(spelled, **({"intersect": False} if by_index else {}), **self.p.get("read_opts", {}))
            except Exception as e:  # noqa: BLE001
                if self.any_bad_unloaded(bases):
                    self.settle(mark, [], True, "Populations.from_swc", bases)
                    outcome = "raised"
                else:
                    raise Violation("unexpected_exception", "Populations.from_swc", f"{type(e).__name__}: {e}"[:300])
            else:
                self.settle(mark, [], False, "Populations.from_swc", bases)
                h = Handle("PS", obj, min(b.n for b in bases) if by_index else len(inter), member_bases=bases,
                           inter=None if by_index else set(inter))
                if by_index:
                    w.probe("c19.populations_without_intersection")
                self.handles.append(h)
                self.check_len(h, "Populations.from_swc")
                if obj.num_of_populations() != len(roots):
                    raise Violation("wrong_len", "Populations.from_swc", f"{obj.num_of_populations()} populations for {len(roots)} roots")
                outcome, hk = "ok", "PS"
                if len(roots) > 1 and len(inter) > 1:
                    w.probe("c19.multi_root_intersection")
        elif kind == "len":
            h = self.pick(op["h"])
            if h is not None:
                mark = len(w.open_log)
                self.check_len(h, f"len({h.kind})")
                self.settle(mark, [], False, f"len({h.kind})")
                outcome, hk = "ok", h.kind
        elif kind == "idx":
            h = self.pick(op["h"])
            if h is not None:
                outcome = self.access(h, op["i"], f"index({h.kind})")
                hk = h.kind
        elif kind == "slice":
            h = self.pick(op["h"], ("P", "CP", "T", "W"))
            if h is not None:
                mark = len(w.open_log)
                sl = slice(op["a"], op["b"], op["c"])
                obj = h.obj[sl]
                idxs = pop_model.slice_indices(op["a"], op["b"], op["c"], h.n)
                self.settle(mark, [], False, "slice")
                s = Handle("S", obj, len(idxs), parent=h, idxs=idxs)
                self.handles.append(s)
                self.check_len(s, "slice")
                outcome, hk = "ok", "S"
        elif kind == "iter":
            h = self.pick(op["h"])
            if h is not None:
                hk = h.kind
                it = iter(h.obj)
                m = h.n + 1 if op["m"] is None else op["m"]
                outcome = "ok"
                for k in range(m):
                    mark = len(w.open_log)
                    try:
                        t = next(it)
                    except StopIteration:
                        if k != h.n:
                            raise Violation("wrong_len", f"iter({h.kind})", f"iteration ended after {k} of {h.n} items")
                        self.settle(mark, [], False, f"iter({h.kind})")
                        break
                    except Exception as e:  # noqa: BLE001
                        if k < h.n and self.may_fail(h, k):
                            if h.kind == "PS":
                                self.settle_failed_row(h, k, mark, "iter(PS)")
                            else:
                                self.settle(mark, [], True, f"iter({h.kind})")
                            outcome = "raised"
                            break
                        raise Violation("unexpected_exception", f"iter({h.kind})", f"item {k}: {type(e).__name__}: {e}"[:300])
                    if k >= h.n:
                        raise Violation("wrong_len", f"iter({h.kind})", f"iteration yields more than {h.n} items")
                    if h.kind == "PS":
                        returned = []
                        rps = set()
                        for b, tt in zip(h.member_bases, t):
                            returned.append(self.identify(tt, (b, k, False), "iter(PS)"))
                            rps.add(returned[-1][1])
                        if (h.inter is not None and len(rps) != 1) or len(t) != len(h.member_bases):
                            raise Violation("row_mismatch", "iter(PS)", f"row {k}: {sorted(rps)}")
                    else:
                        returned = [self.identify(t, h.resolve(k), f"iter({h.kind})")]
                    self.settle(mark, returned, False, f"iter({h.kind})")
        elif kind == "topop":
            h = self.pick(op["h"], ("PS",))
            if h is not None:
                mark = len(w.open_log)
                try:
                    obj = h.obj.to_population()
                except Exception as e:  # noqa: BLE001
                    if self.any_bad_unloaded(h.member_bases):
                        self.settle(mark, [], True, "to_population", h.member_bases)
                        outcome = "raised"
                        obj = None
                    else:
                        raise Violation("unexpected_exception", "to_population", f"{type(e).__name__}: {e}"[:300])
                if obj is not None:
                    self.settle(mark, [], False, "to_population", h.member_bases[:1])
                    members = [Handle("P", None, b.n, base=b) for b in h.member_bases]
                    c = Handle("CP", obj, sum(m.n for m in members), members=members)
                    self.handles.append(c)
                    self.check_len(c, "to_population")
                    outcome, hk = "ok", "CP"
        elif kind == "chain":
            members = []
            seen_roots = {}
            for hh in op["hs"]:
                m = self.pick(hh, ("P", "S", "T", "CP"))
                if m is None:
                    continue
                # two different bases over the same root in one chain would make the per-file ledger ambiguous
                ok = True
                for b in m.bases():
                    if seen_roots.setdefault(b.root, b) is not b:
                        ok = False
                if ok:
                    members.append(m)
            for pos in op["empties"]:
                members.insert(min(pos, len(members)), None)
            if members:
                mark = len(w.open_log)
                obj = ChainTrees([(m.obj if m is not None else []) for m in members])
                self.settle(mark, [], False, "ChainTrees")
                c = Handle("C", obj, sum(m.n for m in members if m is not None), members=members)
                self.handles.append(c)
                self.check_len(c, "ChainTrees")
                outcome, hk = "ok", "C"
                if any(m is None for m in members) and c.n > 0:
                    w.probe("c19.chain_with_empty_member")
        elif kind == "map":
            h = self.pick(op["h"], ("P", "CP", "T"))
            if h is not None:
                hk = h.kind
                mark = len(w.open_log)
                before = simpool._STATE.out_of_order
                global MAP_PARAM
                MAP_PARAM = int(op.get("param", 0))
                try:
                    fn = ident_then_scribble if op.get("scribble") else ident_of
                    res = h.obj.map(fn, max_worker=op["max_worker"], verbose=op["verbose"])
                    res = list(res)
                except Exception as e:  # noqa: BLE001
                    if self.any_bad_unloaded(h.bases()):
                        # every tree is requested; what was opened before the failure stays loaded
                        for rel in w.open_log[mark:]:
                            for b in h.bases():
                                if rel.startswith(b.root + "/") and rel not in self.bad:
                                    b.loaded.add(rel[len(b.root) + 1:])
                        outcome = "raised"
                        res = None
                    else:
                        raise Violation("unexpected_exception", "map", f"{type(e).__name__}: {e}"[:300])
                if res is not None:
                    if len(res) != h.n:
                        raise Violation("map_count", "map", f"{len(res)} results for {h.n} trees")
                    returned = []
                    for k, r in enumerate(res):
                        base, j, tr = h.resolve(k)
                        src, x0, nn = r
                        if nn != 3 + 1000 * MAP_PARAM:
                            raise Violation("map_result", "map", f"result {k} is {r!r}: not the function's value for this "
                                            f"call (the caller's parameter is {MAP_PARAM})")
                        rel = w.rel(src) if src else None
                        rp = rel[len(base.root) + 1:] if rel and rel.startswith(base.root + "/") else None
                        if rp is None or rp not in base.files or x0 != float(base.sig[rp]):
                            raise Violation("map_order", "map", f"result {k} is {r!r}")
                        if j in base.known and base.known[j] != rp:
                            raise Violation("map_order", "map", f"result {k} belongs to {rp}, but index {j} is {base.known[j]}")
                        if j not in base.known and rp in base.known.values():
                            raise Violation("map_order", "map", f"result {k} repeats {rp}")
                        base.known[j] = rp
                        returned.append((base, rp))
                    self.settle(mark, returned, False, "map")
                    outcome = "ok"
                    if simpool._STATE.out_of_order > before:
                        w.probe("c19.map_completed_out_of_order")
        elif kind == "wrap":
            h = self.pick(op["h"], ("S",))
            if h is not None and h.n > 0:
                hk = "S"
                mark = len(w.open_log)
                try:
                    obj = Population(h.obj)
                except Exception as e:  # noqa: BLE001
                    if self.may_fail(h, 0):
                        self.settle(mark, [], True, "Population(view)")
                        outcome = "raised"
                    else:
                        raise Violation("unexpected_exception", "Population(view)", f"{type(e).__name__}: {e}"[:300])
                else:
                    # the constructor may look at element 0 of the view (the probe the statement allows)
                    self.settle(mark, [], False, "Population(view)", h.bases())
                    wv = Handle("W", obj, h.n, parent=h)
                    self.handles.append(wv)
                    self.check_len(wv, "Population(view)")
                    outcome, hk = "ok", "W"
                    w.probe("c19.population_backed_by_a_view")
        elif kind == "ptrans":
            h = self.pick(op["h"], ("P", "CP", "T") if "shared" in op else ("P", "CP"))
            if h is not None:
                hk = h.kind
                mark = len(w.open_log)
                delta = float(op.get("delta", 1))
                if op.get("shared"):
                    if getattr(self, "shared_pt", None) is None:
                        self.shared_mark = _make_mark_transform()
                        self.shared_pt = PopulationTransform(self.shared_mark)
                    else:
                        w.probe("c19.population_transform_object_applied_again")
                    pt = self.shared_pt
                    self.shared_mark.delta = delta  # the caller re-parameterises its transform between applications
                else:
                    mk = _make_mark_transform()
                    mk.delta = delta
                    pt = PopulationTransform(mk)
                try:
                    obj = pt(h.obj)
                except Exception as e:  # noqa: BLE001
                    if self.any_bad_unloaded(h.bases()):
                        for rel in w.open_log[mark:]:
                            for b in h.bases():
                                if rel.startswith(b.root + "/") and rel not in self.bad:
                                    b.loaded.add(rel[len(b.root) + 1:])
                        outcome = "raised"
                        obj = None
                    else:
                        raise Violation("unexpected_exception", "PopulationTransform", f"{type(e).__name__}: {e}"[:300])
                if obj is not None:
                    t = Handle("T", obj, h.n, parent=h, delta=delta)
                    returned = []
                    if len(obj) != h.n:
                        raise Violation("wrong_len", "PopulationTransform", f"{len(obj)} trees for {h.n}")
                    failed = False
                    if op.get("defer"):
                        # the result is looked at LATER (after the transform object was re-parameterised and applied
                        # again): applying a transform to a population asks for every tree, so whatever this step
                        # opened was requested - the ledger still holds every file to one read
                        seen = set()
                        for rel in w.open_log[mark:]:
                            for b in h.bases():
                                rp = rel[len(b.root) + 1:]
                                if rel.startswith(b.root + "/") and rp in b.files and (b.root, rp) not in seen and rel not in self.bad:
                                    seen.add((b.root, rp))
                                    returned.append((b, rp))
                        w.probe("c19.transformed_population_read_later")
                    else:
                        for k in range(h.n):
                            try:
                                tk = obj[k]
                            except Exception as e:  # noqa: BLE001
                                # a transform applied lazily meets the damaged file only now: fine when that file is
                                # the one asked for, a violation otherwise
                                if not self.may_fail(t, k):
                                    raise Violation("unexpected_exception", "PopulationTransform",
                                                    f"element {k}: {type(e).__name__}: {e}"[:300])
                                failed = True
                                break
                            returned.append(self.identify(tk, t.resolve(k), "PopulationTransform"))
                    self.settle(mark, returned, failed, "PopulationTransform")
                    if not failed:
                        self.handles.append(t)
                    outcome = "raised" if failed else "ok"
        elif kind == "fault":
            cands = sorted(f for f, v in self.layout.items()
                           if v[0] == "file" and f.endswith(".swc") and f not in self.bad)
            if cands:
                f = cands[op["f"] % len(cands)]
                fk = op["kind"]
                if fk == "corrupt":
                    w.put(f, b"1 1 0 0 0 1 -1\n2 3 oops 0 0 1 1\n")
                elif fk == "truncate":
                    data = w.get(f)
                    cut = data[: max(1, int(len(data) * op["at"]))]
                    # keep it unambiguously malformed: end inside a row
                    w.put(f, cut.rstrip(b"\n") + b"\n7 3 1 2\n")
                elif fk == "delete":
                    os.remove(w.path(f))
                    del self.layout[f]
                else:
                    w.read_plans[f] = StreamPlan(eio_at=int(op["at"] * 60))
                self.bad.add(f)
                w.fired("storage_" + fk)
                outcome, hk = fk, "disk"
        w.take_warnings()
        w.log(self.steps, kind, hk, outcome)
        self.states.append(f"{hk}|{kind}|{outcome.split(':')[0]}")

    def check_len(self, h: Handle, op: str) -> None:
        n = len(h.obj)
        if n != h.n:
            raise Violation("wrong_len", op, f"len is {n}, expected {h.n}")

    def final_sweep(self) -> None:
        """Every base population, indexed completely: a bijection onto its matching files."""
        for h in list(self.handles):
            if h.kind not in ("P", "PS"):
                continue
            for j in range(h.n):
                self.access(h, j, f"sweep({h.kind})")
            for b in h.bases():
                if h.kind == "PS" and h.inter is None and (b.n != h.n or self.any_bad_unloaded(h.bases())):
                    # matched by index: the longer members are only visited up to the shortest length, and a damaged
                    # file in one member hides the differently named files of the same row in the others
                    continue
                got = set(b.known.values())
                peers = h.bases() if h.kind == "PS" else [b]
                missing = {rp for rp in b.files if rp not in got
                           and not any(f"{q.root}/{rp}" in self.bad for q in peers)}
                if missing:
                    raise Violation("wrong_tree", f"sweep({h.kind})", f"files never returned by any index: {sorted(missing)[:5]}")


def execute(program: dict) -> dict:
    violation = None
    with World() as world:
        state = simpool.SimPoolState(program.get("pool_sched"), world)
        simpool.install(state)
        try:
            sim = Sim(program, world)
            try:
                for op in program["ops"]:
                    sim.step(op)
                sim.final_sweep()
            except Violation as e:
                violation = e.v
        finally:
            simpool.uninstall()
        faults = dict(world.faults)
        probes = dict(world.probes)
        world.log("pool", state.pools_created, state.completed)
        digest = world.digest()
    injected = {k: v for k, v in faults.items() if k not in ("short_read",)}
    nontrivial = sim.loaded_any and (program.get("config") != "faulting" or bool(injected))
    return {"violation": violation, "digest": digest, "steps": sim.steps, "faults": faults, "probes": probes,
            "nontrivial": nontrivial, "config": program.get("config", "fault_free"), "states": sim.states}


# ---------------------------------------------------------------------------


def shrink_candidates(program: dict):
    yield from shrink.drop_from_list(program, ["ops"], min_len=1)
    yield from shrink.drop_from_list(program, ["files"])
    yield from shrink.drop_from_list(program, ["dirs"])
    if program.get("listing"):
        yield shrink.with_value(program, ["listing"], [])
    if program.get("pool_sched"):
        yield shrink.with_value(program, ["pool_sched"], [])
    if program.get("stream"):
        yield shrink.with_value(program, ["stream"], {})
    for i, op in enumerate(program["ops"]):
        if op["op"] == "idx" and op["i"] != 0:
            yield shrink.with_value(program, ["ops", i, "i"], 0)
            yield from shrink.shrink_int_toward(program, ["ops", i, "i"], 0)
        if "h" in op and op["h"] != 0:
            yield shrink.with_value(program, ["ops", i, "h"], 0)
        if op["op"] == "map":
            if op["verbose"]:
                yield shrink.with_value(program, ["ops", i, "verbose"], False)
            if op["max_worker"] is not None:
                yield shrink.with_value(program, ["ops", i, "max_worker"], None)
        if op["op"] == "chain":
            yield from shrink.drop_from_list(program, ["ops", i, "hs"], min_len=1)
            yield from shrink.drop_from_list(program, ["ops", i, "empties"])
        if op["op"] == "pops":
            yield from shrink.drop_from_list(program, ["ops", i, "roots"], min_len=1)


FINDING_PREDICATES: dict = {}
