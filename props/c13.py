"""C13 - closed-form volumes of the primitives equal the true geometric volume.

What a simulator can own here is narrow but real: the sphere-frustum closed form is NOT a
function of its arguments - it draws a random unit vector from NumPy's process-global RNG
(`find_unit_vector_on_plane`, with a redraw loop).  The property must therefore hold for
every RNG state and every draw.  One run = one geometric configuration (the workload)
evaluated under several RNG schedules (the fault/nondeterminism space): reseeded global
state, and injected draws parallel / antiparallel to the cone axis (forcing the redraw
loop), nearly parallel (passes the guard, tiny cross product) and axis-aligned.  Every
schedule must give the volume of the exact 1-D integration reference, and all schedules
must agree with each other.
"""

from __future__ import annotations

import copy
import math

import numpy as np

from models import volume_model as vm
from simkit import shrink
from simkit.prng import Prng
from simkit.world import World

PROP = "C13"
LEVEL = "exploration"
TIERS = {"quick": 6000, "thorough": 200000}
RULE = (
    "one run = one configuration: sphere radius r1 in [0.05, 60], frustum far radius r2 (smaller, equal, "
    "within 1e-7, larger), height h (shorter than / equal to / longer than r1, cone inside the sphere, "
    "cylinder), second sphere radius and centre distance (disjoint, tangent outside, overlapping, tangent "
    "inside, nested, concentric), cap heights in [0, 2r]; the frustum axis along a special exact direction (coordinate axes, face and space diagonals) or a generic unit vector, and an offset, placing it anywhere in space; "
    "evaluated under 4-6 RNG schedules (two seeds; first draw parallel, antiparallel, nearly parallel at 2e-5, "
    "axis-aligned, with the guard's redraw then taken from the seeded stream). Calls per schedule on fresh "
    "objects: sphere, cap x3, frustum, sphere&sphere intersect/union (both orders), sphere&frustum "
    "intersect/union with the sphere at the near end and at the far end, frustum.union(sphere). "
    "Distinct = distinct event-log digest; non-trivial = r2 < r1 (the branch that consults the RNG) evaluated "
    "under >= 2 schedules."
)
STATE_MEASURE = "distinct (taper class, height class, two-sphere class, schedule kind) tuples"
COMPONENTS = {
    "real": ["swcgeom.utils.volumetric_object (VolSphere, VolFrustumCone and their closed-form unions / "
             "intersections)", "swcgeom.utils.solid_geometry", "sdflit (object construction only)", "numpy"],
    "stub": [],
    "replaced_leaf_functions": ["numpy.random.rand (seeded stream with injectable draws)", "numpy.random.seed"],
}
ASSUMPTIONS = [
    "reference = exact piecewise integration of the radius profile of a body of revolution (models/volume_model.py)",
    "tolerance: relative 1e-6 (+1e-12 absolute); 1e-4 relative when |r2 - r1| < 1e-5 or the cone tip is within "
    "1e-5 of the sphere surface, because the library switches formula inside an absolute 1e-6 band",
    "all schedules of one configuration must agree to 1e-9 relative",
    "the sphere shares its centre AND radius with one end of the frustum, as the statement requires",
    "a solid is the solid it was constructed as: in 30% of the runs the caller overwrites the coordinate arrays it "
    "passed to the constructors right after construction, and one frustum object is evaluated again after it took "
    "part in a sphere-frustum evaluation (value semantics, as in the pinned code)",
]


# ---------------------------------------------------------------------------
# generation


S3, S2 = 0.5773502691896258, 0.7071067811865476
SPECIAL_AXES = [[1.0, 0.0, 0.0], [0.0, 1.0, 0.0], [0.0, 0.0, 1.0], [-1.0, 0.0, 0.0], [0.0, -1.0, 0.0], [0.0, 0.0, -1.0],
                [S3, S3, S3], [-S3, -S3, -S3], [S3, -S3, S3], [-S3, S3, S3], [S2, S2, 0.0], [0.0, S2, S2], [S2, 0.0, -S2],
                [0.6, 0.8, 0.0], [0.0, -0.6, 0.8]]


def gen_axis(rng: Prng) -> list:
    """Direction of the frustum axis: special exact directions (coordinate axes, face and space diagonals -
    where a deterministic choice of helper vector degenerates) or a generic unit vector."""
    if rng.chance(0.45):
        return list(rng.choice(SPECIAL_AXES))
    v = [rng.uniform(-1, 1) for _ in range(3)]
    n = math.sqrt(sum(x * x for x in v)) or 1.0
    return [x / n for x in v]


def gen_config(rng: Prng) -> dict:
    r1 = rng.choice([0.05, 0.3, 1.0, 1.0, 2.0, 3.0, 7.5, 60.0]) if rng.chance(0.5) else round(rng.uniform(0.05, 20), 4)
    taper = rng.weighted([("smaller", 6), ("equal", 1), ("band", 1), ("larger", 3), ("point", 1)])
    if taper == "smaller":
        r2 = r1 * rng.choice([0.999, 0.9, 0.5, 0.1, 0.01, rng.uniform(0.02, 0.98)])
    elif taper == "equal":
        r2 = r1
    elif taper == "band":
        # radii that differ only in their last bits (0.1 + 0.2 against 0.3), or by less than the library's 1e-6 band
        r2 = rng.choice([r1 + 1e-7, r1 - 1e-7, r1 - 5e-7, r1 - 9e-7, r1 + 5e-8, r1 - 1.2e-6, r1 - 2e-6, r1 - 2e-6, r1 - 5e-6,
                         math.nextafter(r1, math.inf),
                         math.nextafter(r1, 0.0), r1 * (1 + 2.0 ** -51), r1 * (1 - 2.0 ** -50)])
    elif taper == "larger":
        r2 = r1 * rng.choice([1.001, 1.5, 3.0, 10.0, rng.uniform(1.01, 5)])
    else:
        r2 = r1 * 1e-6
    hk = rng.weighted([("short", 4), ("equal", 1), ("long", 4), ("inside", 2), ("tiny", 1)])
    if hk == "short":
        h = r1 * rng.uniform(0.05, 0.99)
    elif hk == "equal":
        h = r1
    elif hk == "long":
        h = r1 * rng.choice([1.001, 1.5, 4.0, 25.0, rng.uniform(1.0, 10)])
    elif hk == "inside":
        # far end inside the sphere: h^2 + r2^2 < r1^2 (only meaningful when r2 < r1)
        h = math.sqrt(max(r1 * r1 - r2 * r2, 0.0)) * rng.uniform(0.1, 0.98) if r2 < r1 else r1 * 0.5
    else:
        h = r1 * 1e-3
    h = max(h, 1e-4)
    # second sphere
    rb = rng.choice([r1, r1 * 0.5, r1 * 2.0, round(rng.uniform(0.05, 20), 4)])
    dk = rng.weighted([("disjoint", 2), ("tangent_out", 1), ("overlap", 5), ("tangent_in", 1), ("nested", 2),
                       ("concentric", 1)])
    big, small = max(r1, rb), min(r1, rb)
    if dk == "disjoint":
        d = (r1 + rb) * rng.uniform(1.01, 3)
    elif dk == "tangent_out":
        d = r1 + rb
    elif dk == "overlap":
        d = (big - small) + (2 * small) * rng.uniform(0.02, 0.98)
    elif dk == "tangent_in":
        d = big - small
    elif dk == "nested":
        d = (big - small) * rng.uniform(0.0, 0.95)
    else:
        d = 0.0
    caps = [rng.choice([0.0, 1.0, 2.0, 0.5, rng.uniform(0, 2)]) for _ in range(3)]  # fractions of r1
    return {"r1": r1, "r2": r2, "h": h, "rb": rb, "d": d, "caps": caps, "taper": taper, "hk": hk, "dk": dk,
            "axis": gen_axis(rng), "dir2": gen_axis(rng), "scribble": rng.chance(0.3),
            "offset": rng.choice([[0.0, 0.0, 0.0], [0.0, 0.0, 0.0], [8.0, -16.0, 32.0]]) if rng.chance(0.5)
            else [round(rng.uniform(-500, 500), 3) for _ in range(3)]}


def far_offset(rng: Prng) -> list:
    """A solid millions of units from the origin (float64 coordinates): the volume does not depend on where it is."""
    s = rng.choice([1e5, 3e6, 1.2e7, 2e7])
    return [round(rng.uniform(-1, 1) * s, 1) for _ in range(3)]


INT_AXES = [[1.0, 0.0, 0.0], [0.0, -1.0, 0.0], [0.0, 0.0, 1.0], [0.6, 0.8, 0.0], [0.0, -0.6, 0.8], [-0.8, 0.0, 0.6]]


def gen_int_config(rng: Prng) -> dict:
    """Every coordinate and radius an integer, handed to the constructors as Python ints / integer arrays
    (`VolSphere((0, 0, 0), 4)` is how the pinned tests build spheres)."""
    cfg = gen_config(rng)
    r1 = rng.choice([1, 2, 3, 4, 5, 8, 10])
    r2 = rng.choice([max(1, r1 - 1), max(1, r1 // 2), 1, r1, r1 + 1, 2 * r1, 3 * r1])
    axis = rng.choice(INT_AXES)
    dir2 = rng.choice(INT_AXES)
    unit = 5 if 0.6 in [abs(a) for a in list(axis) + list(dir2)] else 1
    h = unit * rng.choice([1, 1, 2, 3, 5, 8])
    rb = rng.choice([r1, max(1, r1 // 2), 2 * r1, rng.randint(1, 12)])
    r1, r2, rb = r1 * unit, r2 * unit, rb * unit  # centre distances below stay multiples of `unit`
    d = unit * rng.randint(0, 4) if rng.chance(0.7) else (r1 + rb)
    cfg.update({"r1": r1, "r2": r2, "h": h, "rb": rb, "d": d, "axis": list(axis), "dir2": list(dir2),
                "offset": [float(rng.randint(-20, 20)) for _ in range(3)] if rng.chance(0.6) else [0.0, 0.0, 0.0],
                "ints": rng.choice(["tuple", "tuple", "array", "list"]), "caps": [float(rng.choice([0, 1, 2])) for _ in range(3)],
                "taper": "int", "hk": "int", "dk": "int"})
    return cfg


def mirror_axis(rng: Prng, axis: list) -> list:
    how = rng.choice(["negate", "flip1", "flip2", "perm", "swap", "fresh", "same"])
    a = list(axis)
    if how == "negate":
        return [-x for x in a]
    if how == "flip1":
        k = rng.below(3)
        a[k] = -a[k]
        return a
    if how == "flip2":
        k = rng.below(3)
        return [(-x if i != k else x) for i, x in enumerate(a)]
    if how == "perm":
        return [a[1], a[2], a[0]]
    if how == "swap":
        return [a[1], a[0], a[2]]
    if how == "fresh":
        return gen_axis(rng)
    return a


def gen_followups(rng: Prng, cfg: dict) -> list:
    """Further configurations evaluated in the same process after the first one: the same solid along a mirrored,
    permuted or fresh axis, optionally with another taper. Objects of the earlier evaluations are gone by then
    (their addresses get reused), and whatever the library remembered from them must not leak."""
    out = []
    for _ in range(rng.weighted([(0, 3), (1, 3), (2, 3), (4, 1)])):
        f = {"axis": mirror_axis(rng, cfg["axis"])}
        if cfg.get("ints") and f["axis"] not in [cfg["axis"], [-x for x in cfg["axis"]]]:
            ok = all(abs(abs(x) * cfg["h"] - round(abs(x) * cfg["h"])) < 1e-9 for x in f["axis"])
            if not ok:
                f["axis"] = [-x for x in cfg["axis"]]
        if rng.chance(0.4) and not cfg.get("ints"):
            f["r2"] = cfg["r1"] * rng.choice([0.9, 0.5, 0.25, 1.5])
        if rng.chance(0.3) and not cfg.get("ints"):
            f["h"] = cfg["h"] * rng.choice([0.5, 2.0, 3.0])
        out.append(f)
    return out


def gen_schedule(rng: Prng) -> dict:
    kind = rng.weighted([("seed", 3), ("parallel", 3), ("antiparallel", 3), ("near", 3), ("axis", 2)])
    s = {"kind": kind, "seed": rng.below(2**31)}
    if kind == "near":
        s["eps"] = rng.choice([2e-5, 5e-5, 1e-4, 1e-3])
        s["perp"] = rng.below(3)
    if kind == "axis":
        s["axis"] = rng.below(3)
    s["repeat"] = rng.choice([1, 1, 2, 3])  # how many consecutive draws are replaced
    return s


def generate(rng: Prng, tier: str) -> dict:
    w = rng.stream("workload")
    rs = rng.stream("rng.draws")
    scheds = [{"kind": "seed", "seed": rs.below(2**31), "repeat": 1}, {"kind": "seed", "seed": rs.below(2**31), "repeat": 1}]
    scheds += [gen_schedule(rs) for _ in range(rs.randint(2, 4))]
    hist = rng.stream("history")
    cfg = gen_int_config(w) if hist.chance(0.12) else gen_config(w)
    cfg["shared_order"] = hist.choice(["far_first", "near_first"])
    rr = rng.stream("ratio")
    if not cfg.get("ints") and rr.chance(0.07):
        # two spheres whose radii differ by three to four orders of magnitude, partly overlapping
        cfg["rb"] = cfg["r1"] * rr.choice([1e3, 3e3, 1e4, 1e3])
        cfg["d"] = (cfg["rb"] - cfg["r1"]) + 2 * cfg["r1"] * rr.uniform(0.05, 0.95)
        cfg["dk"] = "overlap_ratio"
    if not cfg.get("ints") and rr.chance(0.25):
        # a second far radius for the same pair of end points: ONE sphere object will meet both frusta
        r1_, h_ = cfg["r1"], cfg["h"]
        for f in (0.5, 0.9, 0.25, 0.7, 0.35):
            r2b = r1_ * f
            if abs(math.hypot(h_, r2b) - r1_) > 1e-3 * r1_ and abs(r2b - cfg["r2"]) > 1e-3 * r1_:
                cfg["r2b"] = r2b
                break
    eh = rng.stream("estimate")
    if eh.chance(0.2):
        cfg["estimate_first"] = eh.choice([50, 200, 1000])
    if cfg.get("ints") and eh.chance(0.25):
        # integer-typed solids thousands of kilometres across: every length a Python / NumPy integer beyond 2**21
        # (whose cube leaves the 64-bit integer range)
        k = eh.choice([10**6, 3 * 10**6, 10**9])
        for key in ("r1", "r2", "h", "rb", "d"):
            cfg[key] = cfg[key] * k
        cfg["offset"] = [v * k for v in cfg["offset"]]
        cfg["huge_ints"] = True
        cfg["axis"] = eh.choice([[1.0, 0.0, 0.0], [0.0, -1.0, 0.0], [0.0, 0.0, 1.0]])  # products stay exact integers
        cfg["dir2"] = eh.choice([[1.0, 0.0, 0.0], [0.0, 1.0, 0.0], [0.0, 0.0, -1.0]])
    if not cfg.get("ints") and cfg["taper"] == "band" and hist.chance(0.5):
        # an almost-cylindrical frustum some ten thousand units from the origin: whether the generatrix is found to
        # meet the sphere is then decided by rounding noise and by the random helper vector
        cfg["offset"] = hist.choice([[20000.0, -14000.0, 6000.0], [-9000.0, 12000.0, 3000.5], [15000.25, 15000.5, -15000.75]])
        cfg["r1"], cfg["r2"] = cfg["r1"] * 10, cfg["r1"] * 10 - (cfg["r1"] - cfg["r2"])
        cfg["rb"] = cfg["rb"] * 10
        cfg["d"] = cfg["d"] * 10
        cfg["h"] = cfg["h"] * 10
        cfg["far"] = True
    elif not cfg.get("ints") and hist.chance(0.08) and min(cfg["h"], cfg["r1"], cfg["r2"], cfg["rb"]) >= 0.05:
        cfg["offset"] = far_offset(hist)
        cfg["far"] = True
    return {"prop": PROP, "cfg": cfg, "schedules": scheds, "followups": gen_followups(hist, cfg),
            "config": "faulting" if any(s["kind"] != "seed" for s in scheds) else "fault_free"}


# ---------------------------------------------------------------------------
# execution


def reference(cfg: dict) -> dict:
    r1, r2, h, rb, d = cfg["r1"], cfg["r2"], cfg["h"], cfg["rb"], cfg["d"]
    S1, F = vm.sphere(0.0, r1), vm.frustum(0.0, r1, h, r2)
    S2far = vm.sphere(h, r2)  # sphere sharing centre and radius with the far end
    Sb = vm.sphere(d, rb)
    ref = {
        "sphere": vm.sphere_volume(r1),
        "frustum": vm.frustum_volume(r1, r2, h),
        "ss_intersect": vm.intersection_volume([S1, Sb]),
        "ss_union": vm.union_volume([S1, Sb]),
        "sf_near_intersect": vm.intersection_volume([S1, F]),
        "sf_near_union": vm.union_volume([S1, F]),
        "sf_far_intersect": vm.intersection_volume([S2far, F]),
        "sf_far_union": vm.union_volume([S2far, F]),
    }
    for i, f in enumerate(cfg["caps"]):
        ref[f"cap{i}"] = vm.cap_volume(r1, f * r1)
    if cfg.get("r2b") is not None:
        Fb = vm.frustum(0.0, r1, h, cfg["r2b"])
        ref["sfb_near_intersect"] = vm.intersection_volume([S1, Fb])
        ref["sfb_near_union"] = vm.union_volume([S1, Fb])
    return ref


def evaluate(cfg: dict) -> dict:
    """All closed-form calls on fresh objects, placed in space."""
    from swcgeom.utils import VolFrustumCone, VolSphere

    off = cfg["offset"]
    axis = cfg["axis"]
    c1 = np.array(off, dtype=np.float64)
    c2 = c1 + cfg["h"] * np.array(axis)
    d2 = np.array(cfg["dir2"], dtype=np.float64)
    cb = c1 + cfg["d"] * d2 / np.linalg.norm(d2)
    r1, r2, rb = cfg["r1"], cfg["r2"], cfg["rb"]
    scribble = bool(cfg.get("scribble"))

    ints = cfg.get("ints")
    est = cfg.get("estimate_first")

    def estimate(o):
        # a sampled estimate asked of the object first (the Monte-Carlo front end `get_volume(n_samples=...)`): nothing
        # is demanded of that call - the pinned closed-form classes refuse it - but the plain call afterwards is the
        # property's subject and must not be coloured by it
        if est:
            try:
                o.get_volume(n_samples=est)
            except Exception:  # noqa: BLE001
                pass

    def vol(o):
        estimate(o)
        return o.get_volume()

    def as_input(c):
        if not ints:
            return np.array(c, dtype=np.float64)  # the caller's own buffer
        q = [int(round(float(v))) for v in c]
        assert max(abs(a - b) for a, b in zip(q, c)) < 1e-9, "integral configuration expected"
        return tuple(q) if ints == "tuple" else (np.array(q, dtype=np.int64) if ints == "array" else q)

    def S(c, r):
        a = as_input(c)
        o = VolSphere(a, r)
        estimate(o)
        if scribble and isinstance(a, np.ndarray):  # the caller reuses its buffer: the solid must not move with it
            a *= -3
            a += 11
        return o

    def F(ca, ra, cb_, rb_):
        a, b = as_input(ca), as_input(cb_)
        o = VolFrustumCone(a, ra, b, rb_)
        estimate(o)
        if scribble and isinstance(a, np.ndarray):
            a += 5
            b *= 2
        return o

    out = {}
    out["sphere"] = vol(S(c1, r1))
    for i, f in enumerate(cfg["caps"]):
        out[f"cap{i}"] = S(c1, r1).get_volume_spherical_cap(f * r1)
    out["frustum"] = vol(F(c1, r1, c2, r2))
    out["ss_intersect"] = vol(S(c1, r1).intersect(S(cb, rb)))
    out["ss_intersect_rev"] = vol(S(cb, rb).intersect(S(c1, r1)))
    out["ss_union"] = vol(S(c1, r1).union(S(cb, rb)))
    out["ss_union_rev"] = vol(S(cb, rb).union(S(c1, r1)))
    out["sf_near_intersect"] = vol(S(c1, r1).intersect(F(c1, r1, c2, r2)))
    out["sf_near_union"] = vol(S(c1, r1).union(F(c1, r1, c2, r2)))
    out["sf_near_union_rev"] = vol(F(c1, r1, c2, r2).union(S(c1, r1)))
    out["sf_far_intersect"] = vol(S(c2, r2).intersect(F(c1, r1, c2, r2)))
    out["sf_far_union"] = vol(S(c2, r2).union(F(c1, r1, c2, r2)))
    # the same frustum described from its other end
    out["sf_near_intersect_flip"] = vol(S(c1, r1).intersect(F(c2, r2, c1, r1)))
    # one frustum object used again after a sphere-frustum evaluation: it must still be the same solid
    fr = F(c1, r1, c2, r2)
    vol(S(c1, r1).intersect(fr))
    out["frustum_reused"] = vol(fr)
    out["sf_near_union_reused"] = vol(S(c1, r1).union(fr))
    # ONE frustum object met by the spheres at both of its ends, in either order: which end a sphere sits on is a
    # fact about the (sphere, frustum) pair, not something the frustum may remember from the first sphere it met
    fr2 = F(c1, r1, c2, r2)
    order = ["far", "near"] if cfg.get("shared_order") == "far_first" else ["near", "far"]
    for end in order:
        sc, sr = (c1, r1) if end == "near" else (c2, r2)
        out[f"sf_{end}_intersect_shared"] = vol(S(sc, sr).intersect(fr2))
        out[f"sf_{end}_union_shared"] = vol(S(sc, sr).union(fr2))
    if cfg.get("r2b") is not None:
        # ONE sphere object met by two frusta that share both end points and differ only in the far radius: what the
        # sphere overlaps is a fact about the pair, not something the sphere may remember by the far end's position
        sph = S(c1, r1)
        out["sf_near_intersect_shared2"] = vol(sph.intersect(F(c1, r1, c2, r2)))
        out["sfb_near_intersect"] = vol(sph.intersect(F(c1, r1, c2, cfg["r2b"])))
        out["sfb_near_union"] = vol(sph.union(F(c1, r1, c2, cfg["r2b"])))
    return {k: float(v) for k, v in out.items()}, axis


def install_schedule(world: World, s: dict, axis: list):
    np.random.seed(s["seed"] % (2**32))
    world.rng_inject.clear()
    base = world.rng_draws
    kind = s["kind"]
    if kind == "seed":
        return
    a = np.array(axis, dtype=np.float64)
    if kind == "parallel":
        v = a * 0.73
    elif kind == "antiparallel":
        v = -a * 1.9
    elif kind == "near":
        e = np.zeros(3)
        e[s["perp"]] = 1.0
        p = e - np.dot(e, a) * a
        if np.linalg.norm(p) < 1e-6:
            e = np.zeros(3)
            e[(s["perp"] + 1) % 3] = 1.0
            p = e - np.dot(e, a) * a
        p /= np.linalg.norm(p)
        v = a + s["eps"] * p
    else:
        v = np.zeros(3)
        v[s["axis"]] = 1.0
    # every closed-form sphere-frustum call starts with one draw; replace the first draw of each of the
    # next calls (draw indices are global): indices base, base+1, ... cover the first draws as long as no
    # redraw happens; when a redraw happens the following index is simply served from the seeded stream
    for k in range(64):
        if k % max(1, 4 - s["repeat"]) == 0 or s["repeat"] >= 3:
            world.rng_inject[base + k] = [float(x) for x in v]


def tol_for(cfg: dict, key: str) -> float:
    r1, r2, h = cfg["r1"], cfg["r2"], cfg["h"]
    loose = abs(r2 - r1) < 1e-5
    if key.startswith("sf_"):
        tip = math.hypot(h, r2)
        if abs(tip - r1) < 1e-5 * max(1.0, r1) or abs(h - r1) < 1e-5:
            loose = True
        if r2 < 1e-4 * r1 or h < 1e-2 * r1:
            loose = True
    if key.startswith("sfb_"):
        return 1e-4 if (h < 1e-2 * r1 or abs(h - r1) < 1e-5) else 1e-6
    return 1e-4 if loose else 1e-6


def effective(cfg: dict) -> dict:
    """The configuration the constructors actually receive: far from the origin the end points c1 + h*axis are
    rounded to float64, so the height and centre distance of the solid handed over differ from the nominal ones
    by up to |c| * 2**-52 - the reference must describe that solid."""
    if not cfg.get("far"):
        return cfg
    c1 = np.array(cfg["offset"], dtype=np.float64)
    c2 = c1 + cfg["h"] * np.array(cfg["axis"])
    d2 = np.array(cfg["dir2"], dtype=np.float64)
    cb = c1 + cfg["d"] * d2 / np.linalg.norm(d2)
    return dict(cfg, h=float(np.linalg.norm(c2 - c1)), d=float(np.linalg.norm(cb - c1)))


def far_slack(cfg: dict) -> float:
    """Cancellation allowance for solids far from the origin: float64 carries |c| * 2**-52 absolute, i.e. that much
    relative to the smallest length of the solid; a factor 100 for the handful of operations in between."""
    if not cfg.get("far"):
        return 0.0
    c = max(abs(v) for v in cfg["offset"]) + cfg["h"] + cfg["d"]
    return 100 * 2.0 ** -52 * c / min(cfg["h"], cfg["r1"], cfg["r2"], cfg["rb"])


def judge(cfg: dict, ref: dict, scale: float, got: dict, where: str):
    slack = far_slack(cfg)
    for key, val in sorted(got.items()):
        rkey = key.replace("_rev", "").replace("_flip", "").replace("_reused", "").replace("_shared2", "").replace("_shared", "")
        exp = ref[rkey]
        tol = tol_for(cfg, key) + slack
        if not (abs(val - exp) <= tol * max(abs(exp), 1e-6 * scale) + 1e-12):
            return {"tag": "wrong_volume", "op": rkey,
                    "detail": f"{key} = {val!r}, true volume {exp!r} (rel err {abs(val - exp) / max(abs(exp), 1e-300):.3g}) "
                              f"{where}; r1={cfg['r1']} r2={cfg['r2']} h={cfg['h']} rb={cfg['rb']} d={cfg['d']} axis={cfg['axis']}"}
    return None


def execute(program: dict) -> dict:
    cfg = program["cfg"]
    violation = None
    states = []
    steps = 0
    ref = reference(effective(cfg))
    scale = max(ref["sphere"], ref["frustum"], 1e-300)
    with World() as world:
        results = []
        if cfg.get("ints"):
            world.probe("c13.integer_typed_inputs")
        try:
            for si, s in enumerate(program["schedules"]):
                steps += 1
                install_schedule(world, s, cfg["axis"])
                before = world.rng_draws
                try:
                    got, _ = evaluate(cfg)
                except Exception as e:  # noqa: BLE001
                    violation = {"tag": "raised", "op": f"schedule:{s['kind']}/{type(e).__name__}",
                                 "detail": f"{type(e).__name__}: {e}"[:300]}
                    break
                draws = world.rng_draws - before
                world.log(si, s["kind"], draws, {k: float.hex(v) for k, v in sorted(got.items())})
                if draws > 8:
                    world.probe("c13.redraw_loop_taken")
                violation = judge(cfg, ref, scale, got, f"under schedule {s['kind']}")
                if violation:
                    break
                results.append((s["kind"], got))
                states.append(f"{cfg['taper']}|{cfg['hk']}|{cfg['dk']}|{s['kind']}")
            if not violation and results:
                first = results[0][1]
                for kind, got in results[1:]:
                    for key in first:
                        a, b = first[key], got[key]
                        if abs(a - b) > (1e-9 + far_slack(cfg)) * max(abs(a), abs(b), 1e-6 * scale):
                            violation = {"tag": "schedule_dependence", "op": key.replace("_rev", "").replace("_flip", "").replace("_reused", "").replace("_shared2", "").replace("_shared", ""),
                                         "detail": f"{key}: {a!r} under `seed` but {b!r} under `{kind}`"}
                            break
                    if violation:
                        break
            # follow-up configurations in the same process (session history)
            for fi, f in enumerate(program.get("followups") or []):
                if violation:
                    break
                steps += 1
                cfg2 = dict(cfg, **f)
                ref2 = reference(effective(cfg2))
                scale2 = max(ref2["sphere"], ref2["frustum"], 1e-300)
                install_schedule(world, {"kind": "seed", "seed": 12345 + fi, "repeat": 1}, cfg2["axis"])
                try:
                    got2, _ = evaluate(cfg2)
                except Exception as e:  # noqa: BLE001
                    violation = {"tag": "raised", "op": f"followup/{type(e).__name__}", "detail": f"{type(e).__name__}: {e}"[:300]}
                    break
                world.log("followup", fi, {k: float.hex(v) for k, v in sorted(got2.items())})
                world.probe("c13.followup_configuration")
                violation = judge(cfg2, ref2, scale2, got2, f"in follow-up {fi} (after {fi + 1} earlier configuration(s) in this process)")
        finally:
            world.rng_inject.clear()
        faults = dict(world.faults)
        probes = dict(world.probes)
        digest = world.digest()
    # by configuration, not by observed draws: a correct implementation that consults no RNG must not turn the
    # batch "trivial" (fired injections are reported separately under fault_fired)
    nontrivial = cfg["r2"] < cfg["r1"] and len(program["schedules"]) >= 2
    return {"violation": violation, "digest": digest, "steps": steps, "faults": faults, "probes": probes,
            "nontrivial": nontrivial, "config": program.get("config", "fault_free"), "states": states}


# ---------------------------------------------------------------------------


def shrink_candidates(program: dict):
    yield from shrink.drop_from_list(program, ["schedules"], min_len=1)
    if program.get("followups"):
        yield from shrink.drop_from_list(program, ["followups"])
    if program["cfg"].get("ints"):
        q = copy.deepcopy(program)
        q["cfg"]["ints"] = None
        yield q
    cfg = program["cfg"]
    for key in ("axis", "dir2"):
        if cfg[key] != [0.0, 0.0, 1.0]:
            yield shrink.with_value(program, ["cfg", key], [0.0, 0.0, 1.0])
    if cfg["offset"] != [0.0, 0.0, 0.0]:
        yield shrink.with_value(program, ["cfg", "offset"], [0.0, 0.0, 0.0])
    for key, simple in (("r1", 1.0), ("rb", 1.0), ("d", 0.0), ("d", 1.0), ("h", 1.0), ("h", 2.0), ("r2", 0.5), ("r2", 1.0)):
        if cfg[key] != simple:
            yield shrink.with_value(program, ["cfg", key], simple)
    if cfg.get("scribble"):
        yield shrink.with_value(program, ["cfg", "scribble"], False)
    if cfg["caps"] != [1.0, 1.0, 1.0]:
        yield shrink.with_value(program, ["cfg", "caps"], [1.0, 1.0, 1.0])
    for key in ("r1", "r2", "h", "rb", "d"):
        v = cfg[key]
        r = round(v, 2)
        if r != v and r > 0:
            yield shrink.with_value(program, ["cfg", key], r)


FINDING_PREDICATES: dict = {}
