"""Glue shared by the property modules: model <-> swcgeom.Tree conversion, snapshots."""

from __future__ import annotations

import numpy as np

COLS = ["id", "type", "x", "y", "z", "r", "pid"]


def build_tree(t: dict, *, comments=None, source: str = "", custom_names: bool = False):
    from swcgeom.core import Tree

    n = len(t["pid"])
    if custom_names:
        # the same table under other column names (SWCNames is a parameter of every table-level API)
        from swcgeom.core.swc_utils import SWCNames

        nm = SWCNames(id="n", type="kind", x="px", y="py", z="pz", r="radius", pid="parent")
        cols = {nm.id: np.arange(n, dtype=np.int32), nm.type: np.array(t["type"], dtype=np.int32),
                nm.x: np.array(t["x"], dtype=np.float32), nm.y: np.array(t["y"], dtype=np.float32),
                nm.z: np.array(t["z"], dtype=np.float32), nm.r: np.array(t["r"], dtype=np.float32),
                nm.pid: np.array(t["pid"], dtype=np.int32)}
        return Tree(n, names=nm, comments=list(comments) if comments is not None else None, source=source, **cols)
    # extra per-node columns ride along under the model keys `x_<name>` (float32, or int64 for integer lists)
    extra = {k[2:]: np.array(v, dtype=np.int64 if all(isinstance(e, int) for e in v) else np.float32)
             for k, v in t.items() if k.startswith("x_")}
    return Tree(
        n,
        **extra,
        id=np.arange(n, dtype=np.int32),
        type=np.array(t["type"], dtype=np.int32),
        x=np.array(t["x"], dtype=np.float32),
        y=np.array(t["y"], dtype=np.float32),
        z=np.array(t["z"], dtype=np.float32),
        r=np.array(t["r"], dtype=np.float32),
        pid=np.array(t["pid"], dtype=np.int32),
        comments=list(comments) if comments is not None else None,
        source=source,
    )


def tree_to_model(tree) -> dict:
    return {
        "type": [int(v) for v in tree.get_ndata("type")],
        "x": [float(v) for v in tree.get_ndata("x")],
        "y": [float(v) for v in tree.get_ndata("y")],
        "z": [float(v) for v in tree.get_ndata("z")],
        "r": [float(v) for v in tree.get_ndata("r")],
        "pid": [int(v) for v in tree.get_ndata("pid")],
    }


def snapshot(tree) -> dict:
    """Bit-exact copy of everything observable about a tree."""
    return {
        "cols": {k: (np.array(v, copy=True), str(np.asarray(v).dtype)) for k, v in tree.ndata.items()},
        "comments": list(tree.comments),
        "source": tree.source,
    }


def same_bits(a: np.ndarray, b: np.ndarray) -> bool:
    a, b = np.asarray(a), np.asarray(b)
    if a.shape != b.shape or a.dtype != b.dtype:
        return False
    return a.tobytes() == b.tobytes()


def diff_snapshot(tree, snap: dict) -> str | None:
    if set(tree.ndata.keys()) != set(snap["cols"].keys()):
        return f"column set changed: {sorted(tree.ndata)} vs {sorted(snap['cols'])}"
    for k, (arr, dt) in snap["cols"].items():
        cur = tree.ndata[k]
        if not same_bits(cur, arr):
            return f"column `{k}` changed"
    if list(tree.comments) != snap["comments"]:
        return "comments changed"
    if tree.source != snap["source"]:
        return "source changed"
    return None
