"""C14 - tree volume is the volume of the union of node spheres and connecting frusta.

Seams owned: the global NumPy RNG behind `find_unit_vector_on_plane` (consulted by every
sphere-frustum term of get_volume) and behind the Monte-Carlo sampling of branching nodes at
accuracy >= 5.  One run = one tree (the workload) evaluated at several accuracy levels under
several RNG schedules (reseeded state; injected parallel / antiparallel / near-parallel
draws); every schedule must give the reference volume and all schedules must agree.

 collinear trees (chains; roots with two arms on opposite sides) with admissible spacing:
     levels >= 3  ->  exact union volume of the coaxial spheres and frusta (models/volume_model)
 every tree: level 1 -> sum of node spheres, level 2 -> plus the sum of the frusta
"""

from __future__ import annotations

import copy
import math

import numpy as np

from models import tree_model
from models import volume_model as vm
from models.tree_model import f32
from props import common
from props.c13 import SPECIAL_AXES
from simkit import shrink
from simkit.prng import Prng
from simkit.world import World

PROP = "C14"
LEVEL = "exploration"
TIERS = {"quick": 2400, "thorough": 60000}
RUN_WALL_S = 60  # slowest legitimate run under full load: 5 s (a Monte-Carlo level on a two-armed root)
RULE = (
    "one run = one tree: a collinear chain of 2-12 nodes or a root with two arms on opposite sides (radii in "
    "[0.1, 6], each compartment length = max(end radii) x factor in {1 exactly, 1.000006, 1.001, 1.2, 1.5, 1.9, 2.5, 6}, so "
    "neighbouring spheres are tangent, overlapping or apart; the line has a special exact or a generic direction "
    "and an offset; node types are drawn at random and 12% of the two-armed roots follow the three-point-soma "
    "convention (soma-typed root and tips one radius apart); in 30% of the runs the nodes are numbered so that "
    "children need not follow their parents; 0-2 radius edits (in place through a node handle, or on a copy) are "
    "followed by a re-evaluation of the same levels; 15% of the collinear trees are small (scale 1/16 or 1/64) and far from the origin "
    "(coordinates of thousands, axis-parallel so that float32 storage keeps them exactly collinear); the feature "
    "API is called on a fresh extractor or on one extractor shared by all levels and schedules of the run; admissibility - non-adjacent solids have disjoint axial extent - is verified on the model and "
    "the spacing widened until it holds), or an arbitrary tree (any shape, <= 40 nodes) for levels 1 and 2. "
    "Levels: integers 1-9 and the names low/middle/high through get_volume and extract_feature(tree).get('volume'); "
    "a two-armed root is evaluated at level >= 5 (Monte-Carlo term at the branching node, ~1 s) only in runs "
    "flagged mc (~2%). Each (tree, level) is evaluated under 2-4 RNG schedules. Distinct = distinct event-log "
    "digest; non-trivial = a collinear tree with at least one pair of overlapping neighbouring spheres or unequal "
    "radii, evaluated at a level >= 3."
)
STATE_MEASURE = "distinct (tree kind, node-count bucket, overlap class, level, schedule kind) tuples"
COMPONENTS = {
    "real": ["swcgeom.analysis.volume.get_volume", "swcgeom.analysis.feature_extractor (volume feature)",
             "swcgeom.utils.volumetric_object", "swcgeom.utils.solid_geometry", "swcgeom.core.tree (traverse)",
             "sdflit (SDF construction; sampling in the Monte-Carlo branch)", "numpy"],
    "stub": [],
    "replaced_leaf_functions": ["numpy.random.rand (seeded stream with injectable draws)", "numpy.random.seed"],
}
ASSUMPTIONS = [
    "the tree stores float32 coordinates: the reference uses exactly those float32 values (edge lengths computed "
    "in float64 from them); the residual non-collinearity after rounding (<= 1e-7 relative) is ignored",
    "the library computes in float32: tolerance 2e-4 relative for levels >= 3, 5e-5 for levels 1 and 2",
    "admissible = every compartment at least as long as both end radii and no two solids that do not share a node "
    "have overlapping or touching axial extent (margin 1e-6 of the largest radius)",
    "accuracy 10 (pure Monte Carlo over 1e8 samples) is outside the statement and is not run",
    "the Monte-Carlo term of a two-armed root must be exactly empty (the cones only meet inside the root sphere)",
]

LEVEL_NAMES = {"low": 3, "middle": 5, "high": 8}


# ---------------------------------------------------------------------------
# generation


def gen_axis(rng: Prng) -> list:
    if rng.chance(0.5):
        return list(rng.choice(SPECIAL_AXES))
    v = [rng.uniform(-1, 1) for _ in range(3)]
    n = math.sqrt(sum(x * x for x in v)) or 1.0
    return [x / n for x in v]


def gen_radius(rng: Prng) -> float:
    return rng.choice([0.1, 0.5, 1.0, 1.0, 2.0, 3.5, 6.0]) if rng.chance(0.5) else round(rng.uniform(0.1, 6.0), 3)


def gen_arm(rng: Prng, r0: float, n: int) -> list:
    """[(gap factor, radius)] for n further nodes along one direction."""
    arm = []
    for _ in range(n):
        arm.append([rng.choice([1.0, 1.000006, 1.001, 1.2, 1.5, 1.9, 2.5, 6.0]), gen_radius(rng) if rng.chance(0.8) else r0])
    return arm


def gen_schedule(rng: Prng) -> dict:
    kind = rng.weighted([("seed", 4), ("parallel", 3), ("antiparallel", 2), ("near", 3), ("axis", 1)])
    s = {"kind": kind, "seed": rng.below(2**31)}
    if kind == "near":
        s["eps"] = rng.choice([2e-5, 1e-4, 1e-3])
    if kind == "axis":
        s["axis"] = rng.below(3)
    return s


def generate(rng: Prng, tier: str) -> dict:
    w = rng.stream("workload")
    rs = rng.stream("rng.draws")
    kind = w.weighted([("chain", 6), ("two_arm", 3), ("arbitrary", 3)])
    p: dict = {"prop": PROP, "kind": kind}
    if kind == "arbitrary":
        n = w.choice([1, 2, 3, 5, 9, 16, 40])
        t = tree_model.gen_tree(w, n, wild=False, types=[1, 2, 3, 3, 4])
        bg = rng.stream("big_tree")
        if bg.chance(0.04):
            # levels 1 and 2 are stated "for every tree": a short arm listed first, then an arm of a thousand nodes
            # and more (deeper than the interpreter's recursion limit)
            k, m = bg.randint(1, 6), bg.randint(1050, 2600)
            n = 1 + k + m
            t = tree_model.gen_tree(bg, n, "chain", wild=False, types=[1, 2, 3, 3, 4])
            t["pid"][1 + k] = 0
        p["tree"] = t
        p["levels"] = [1, 2] if w.chance(0.7) else [w.choice([1, 2])]
        p["mc"] = False
    else:
        r0 = gen_radius(w)
        n_a = w.choice([1, 1, 2, 3, 5, 8, 11])
        p["r0"] = r0
        p["arm_a"] = gen_arm(w, r0, n_a)
        p["arm_b"] = gen_arm(w, r0, w.choice([1, 1, 2, 3, 5])) if kind == "two_arm" else []
        nr = rng.stream("near_radii")
        for arm in (p["arm_a"], p["arm_b"]):
            prev, zero_run = r0, False
            for e in arm:
                u = nr.random()
                if zero_run and nr.chance(0.6):
                    e[1] = 0.0
                elif u < 0.08:
                    # neighbouring radii that are nearly, not exactly, equal (a few float32 ulps to a few 1e-5 apart)
                    e[1] = prev * nr.choice([1 + 1.2e-7, 1 - 1.2e-7, 1 + 2.5e-7, 1 - 6e-7, 1 + 2e-6, 1 - 1e-5, 1 + 3e-5, 1 - 8e-5])
                elif u < 0.11:
                    e[1] = 0.0  # a node of zero thickness (a run of them: a compartment that is a bare line)
                zero_run = e[1] == 0.0
                prev = e[1] or prev
        p["axis"] = gen_axis(w)
        p["offset"] = w.choice([[0.0, 0.0, 0.0], [8.0, -16.0, 32.0]]) if w.chance(0.5) else \
            [round(w.uniform(-300, 300), 2) for _ in range(3)]
        p["scale"] = 1.0
        if w.chance(0.15):
            # a small tree far from the origin: compartments much shorter than their coordinates. The line is
            # axis-parallel and the offset exactly representable, so float32 storage keeps it exactly collinear.
            p["axis"] = w.choice([[1.0, 0.0, 0.0], [0.0, 1.0, 0.0], [0.0, 0.0, 1.0], [-1.0, 0.0, 0.0], [0.0, 0.0, -1.0]])
            p["offset"] = w.choice([[8192.0, -4096.0, 2048.0], [16384.0, 0.0, 0.0], [-8192.0, 8192.0, 8192.0],
                                    [1024.0, 1024.0, 1024.0]])
            p["scale"] = w.choice([1.0 / 16, 1.0 / 64, 1.0 / 64])
            if rng.stream("very_far").chance(0.4):
                # ordinary compartment lengths, a quarter of a million units out (float32 still resolves 1/32 there)
                p["offset"] = rng.stream("very_far").choice([[262144.0, 1024.0, -512.0], [-524288.0, 0.0, 0.0], [1024.0, 262144.0, 262144.0]])
                p["scale"] = 1.0
        p["mc"] = kind == "two_arm" and w.chance(0.06)
        if kind == "chain":
            pool = [1, 2, 3, 3, 4, 5, 5, 6, 7, 8, 9, "low", "middle", "high"]
        elif p["mc"]:
            pool = [5, "middle", 8]
        else:
            pool = [1, 2, 3, 3, 4, "low"]
        p["levels"] = [w.choice(pool) for _ in range(1 if p["mc"] else w.randint(1, 3))]
    p["api"] = w.choice(["get_volume", "get_volume", "feature", "feature_shared", "feature_shared"])
    hs = rng.stream("history")
    h2 = rng.stream("history2")
    if h2.chance(0.2):
        # the feature front end's other calling conventions, with ONE spec object per level kept and reused
        p["api"] = "feature_forms"
    # a call that fails (or answers nonsense) on an inadmissible tree, in between: it must leave nothing behind
    p["poison"] = h2.choice(["nan_x_root", "nan_x_mid", "inf_x_last"]) if h2.chance(0.25) else None
    # the caller's interpreter-wide settings: NumPy floating-point errors raised (divide, invalid), warnings as errors
    p["fp_errors"] = h2.choice([None, None, None, "raise"])
    p["warnings"] = h2.choice([None, None, None, "error"])
    if kind == "arbitrary" and h2.chance(0.2):
        # a point saved twice (or more) in a row, the copies carrying other radii: compartments of zero length
        t = p["tree"]
        for i in range(1, len(t["pid"])):
            if h2.chance(0.3):
                q = t["pid"][i]
                for c in "xyz":
                    t[c][i] = t[c][q]
    lg = rng.stream("logging")
    # the caller's logging configuration: DEBUG enabled on the root logger with a handler attached
    p["logging"] = "debug" if lg.chance(0.15) else None
    p["custom_names"] = h2.chance(0.08)  # the tree's columns under other names (SWCNames)
    # header comments riding on the tree: text, never geometry
    p["comments"] = h2.choice([None, None, ["SCALE 0.5 0.5 2.0"], [" SCALE 2 2 2", "ORIGINAL_SOURCE x"], ["scale 0.1 0.1 0.1"],
                               ["VOLUME 1.0", "accuracy 1"]])
    # accuracy levels handed over as NumPy integers (`for a in np.arange(1, 5)`): level 1 is level 1
    p["level_type"] = h2.choice(["int", "int", "int", "np.int64", "np.int32", "np.uint8"])
    if kind != "arbitrary":
        if p["scale"] == 1.0 and h2.chance(0.1):
            p["scale"] = h2.choice([1.0 / 256, 1.0 / 1024, 1.0 / 128])  # small absolute units near the origin
        if p["mc"] and h2.chance(0.5) and p["arm_b"]:
            p["arm_b"][0] = list(p["arm_a"][0])  # mirror-image first compartments on either side of the root
    # the same solid laid out along mirrored / permuted directions, evaluated afterwards in the same process
    p["followup_axes"] = []
    if kind != "arbitrary" and not p["mc"] and h2.chance(0.35):
        for _ in range(h2.choice([1, 1, 2])):
            a = list(p["axis"])
            how = h2.choice(["flip1", "flip1", "flip2", "negate", "swap", "perm"])
            if how == "flip1":
                ks = [k for k in range(3) if a[k] != 0.0] or [0]
                k = h2.choice(ks)
                a[k] = -a[k]
            elif how == "flip2":
                k = h2.below(3)
                a = [(-x if i != k else x) for i, x in enumerate(a)]
            elif how == "negate":
                a = [-x for x in a]
            elif how == "swap":
                a = [a[1], a[0], a[2]]
            else:
                a = [a[2], a[0], a[1]]
            p["followup_axes"].append(a)
    n_nodes = len(p["tree"]["pid"]) if kind == "arbitrary" else 1 + len(p["arm_a"]) + len(p["arm_b"])
    if kind != "arbitrary":
        if kind == "two_arm" and hs.chance(0.12):
            # the three-point-soma convention of SWC files: a soma-typed root with two soma-typed tips at one
            # radius on either side - geometrically just a two-armed collinear root at the admissible boundary
            # (exactly one radius apart the two tips touch each other, which the statement excludes: 6e-6 more)
            p["arm_a"] = [[hs.choice([1.000006, 1.000006, 1.01]), 1.0]]
            p["arm_b"] = [[hs.choice([1.000006, 1.000006, 1.01]), 1.0]]
            p["r0"] = 1.0 if hs.chance(0.8) else 1.5
            p["types"] = [1, hs.choice([1, 1, 3]), hs.choice([1, 1, 3])]
            n_nodes = 3
        else:
            p["types"] = [hs.choice([1, 1, 1, 3, 0])] + [hs.choice([1, 2, 3, 3, 4]) for _ in range(n_nodes - 1)]
    # numbering: children need not be stored after their parents (legal in SWC files, accepted by Tree.from_swc)
    p["perm"] = [0] + [1 + q for q in hs.permutation(n_nodes - 1)] if (n_nodes > 2 and hs.chance(0.3)) else None
    # history: after the first evaluation some radii are changed (in place through a node handle, or on a copy)
    # and the same levels are asked again - the answer must follow the tree
    p["edits"] = [{"node": hs.below(64), "factor": hs.choice([0.5, 0.75, 0.9]), "on": hs.choice(["inplace", "copy"])}
                  for _ in range(hs.choice([0, 0, 1, 1, 2]))] if not p["mc"] else []
    n_s = 1 if p["mc"] else rs.randint(2, 4)
    p["schedules"] = [{"kind": "seed", "seed": rs.below(2**31)}] + [gen_schedule(rs) for _ in range(n_s - 1)]
    p["config"] = "faulting" if any(s["kind"] != "seed" for s in p["schedules"]) else "fault_free"
    return p


# ---------------------------------------------------------------------------
# model side


def layout(program: dict):
    """-> (tree model dict with float32 values, axial positions s_i, edges) for collinear kinds.

    Spacing is widened (deterministically) until the configuration is admissible."""
    sc = program.get("scale", 1.0)
    r0 = program["r0"] * sc
    axis = program["axis"]
    off = program["offset"]
    widen = 1.0
    for _ in range(40):
        s = [0.0]
        r = [r0]
        pid = [-1]
        for sign, arm in ((1.0, program["arm_a"]), (-1.0, program["arm_b"])):
            prev = 0
            for factor, rad in arm:
                rad = rad * sc
                gap = (max(r[prev], rad) or 0.75 * sc) * factor * widen  # two zero radii in a row: any positive length
                s.append(s[prev] + sign * gap)
                r.append(rad)
                pid.append(prev)
                prev = len(s) - 1
        # float32 coordinates as the tree will hold them
        xyz = [[f32(off[k] + s[i] * axis[k]) for k in range(3)] for i in range(len(s))]
        rr = [f32(v) for v in r]
        # axial positions recomputed from the stored values
        pos = [0.0] * len(s)
        for i in range(1, len(s)):
            d = math.sqrt(sum((xyz[i][k] - xyz[pid[i]][k]) ** 2 for k in range(3)))
            pos[i] = pos[pid[i]] + (d if s[i] > s[pid[i]] else -d)
        if admissible(pos, rr, pid):
            types = program.get("types")
            if not types or len(types) != len(s):
                types = [1] + [3] * (len(s) - 1)
            t = {"type": list(types), "x": [p[0] for p in xyz], "y": [p[1] for p in xyz],
                 "z": [p[2] for p in xyz], "r": rr, "pid": pid}
            return t, pos
        widen *= 1.35
    raise AssertionError("could not make the layout admissible")


def solids(pos, r, pid):
    """[(nodes it belongs to, lo, hi)] for every sphere and frustum."""
    out = []
    for i in range(len(pos)):
        out.append(((i,), pos[i] - r[i], pos[i] + r[i]))
    for i in range(1, len(pos)):
        a, b = sorted((pos[i], pos[pid[i]]))
        out.append(((pid[i], i), a, b))
    return out


def admissible(pos, r, pid) -> bool:
    margin = 1e-6 * max(r)
    for i in range(1, len(pos)):
        d = abs(pos[i] - pos[pid[i]])
        if d < r[i] or d < r[pid[i]]:
            return False
    ss = solids(pos, r, pid)
    for a in range(len(ss)):
        for b in range(a + 1, len(ss)):
            na, la, ha = ss[a]
            nb, lb, hb = ss[b]
            if set(na) & set(nb):
                continue
            if len(na) == 1 and len(nb) == 1 and (pid[na[0]] == nb[0] or pid[nb[0]] == na[0]):
                continue  # neighbouring spheres may overlap
            if not (ha + margin < lb or hb + margin < la):
                return False
    return True


def union_reference(pos, r, pid) -> float:
    prof = [vm.sphere(pos[i], r[i]) for i in range(len(pos))]
    prof += [vm.frustum(pos[pid[i]], r[pid[i]], pos[i], r[i]) for i in range(1, len(pos))]
    return vm.union_volume(prof)


def level12_reference(t: dict, level: int) -> float:
    n = len(t["pid"])
    v = sum(4.0 / 3.0 * math.pi * t["r"][i] ** 3 for i in range(n))
    if level >= 2:
        for i in range(1, n):
            p = t["pid"][i]
            h = math.sqrt(sum((t[k][i] - t[k][p]) ** 2 for k in "xyz"))
            v += math.pi * h * (t["r"][i] ** 2 + t["r"][i] * t["r"][p] + t["r"][p] ** 2) / 3.0
    return v


# ---------------------------------------------------------------------------
# execution


def install_schedule(world: World, s: dict, axis):
    np.random.seed(s["seed"] % (2**32))
    world.rng_inject.clear()
    base = world.rng_draws
    kind = s["kind"]
    if kind == "seed" or axis is None:
        return
    a = np.array(axis, dtype=np.float64)
    if kind == "parallel":
        v = a * 0.5
    elif kind == "antiparallel":
        v = -a * 1.25
    elif kind == "near":
        e = np.zeros(3)
        e[int(np.argmin(np.abs(a)))] = 1.0
        p = e - np.dot(e, a) * a
        p /= np.linalg.norm(p)
        v = a + s["eps"] * p
    else:
        v = np.zeros(3)
        v[s["axis"]] = 1.0
    for k in range(0, 400, 2):  # every other draw: a redraw after an injected parallel draw is seeded
        world.rng_inject[base + k] = [float(x) for x in v]


FORMS = ["kw", "tuple", "tuple_override", "tuple", "list", "dict", "tuple", "kw"]


def call_volume(tree, level, api: str, shared: dict) -> float:
    import warnings as _w

    with np.errstate(divide=shared.get("fp_errors") or "warn", invalid=shared.get("fp_errors") or "warn"), _w.catch_warnings():
        if shared.get("warnings") == "error":
            _w.simplefilter("error")
        return _call_volume(tree, level, api, shared)


def _call_volume(tree, level, api: str, shared: dict) -> float:
    lt = shared.get("level_type", "int")
    if lt != "int" and isinstance(level, int):
        level = getattr(np, lt.split(".")[1])(level)
    if api == "feature_forms":
        from swcgeom.analysis import extract_feature

        ext = shared.setdefault("ext", extract_feature(tree))
        spec = shared.setdefault(("spec", str(level)), ("volume", {"accuracy": level}))
        k = shared["calls"] = shared.get("calls", -1) + 1
        form = FORMS[k % len(FORMS)]
        if form == "tuple_override":
            # call-time keyword next to the spec's own: whatever it answers, the spec object must not be changed by
            # it - the plain call that follows has to be evaluated at the spec's level again
            try:
                ext.get(spec, accuracy=1 if level != 1 else 2)
            except Exception:  # noqa: BLE001
                pass
            form = "tuple"
        if form == "kw":
            out = ext.get("volume", accuracy=level)
        elif form == "tuple":
            out = ext.get(spec)
        elif form == "list":
            out = ext.get([("length", {}), spec])[1]
        else:
            out = ext.get({"volume": spec[1]})["volume"]
        return float(np.asarray(out).reshape(-1)[0])
    if api in ("feature", "feature_shared"):
        from swcgeom.analysis import extract_feature

        if api == "feature_shared":
            # one extractor object asked again and again (other levels, other schedules): a history
            ext = shared.setdefault("ext", extract_feature(tree))
        else:
            ext = extract_feature(tree)
        out = ext.get("volume", accuracy=level)
        return float(np.asarray(out).reshape(-1)[0])
    from swcgeom.analysis import get_volume

    return float(get_volume(tree, accuracy=level))


def poison_call(t: dict, level, how: str) -> str:
    """get_volume on an inadmissible tree (a non-finite coordinate or radius): nothing is demanded of this call
    itself; what it may have left behind is judged by the evaluations that follow."""
    from swcgeom.analysis import get_volume

    bad = {k: list(v) for k, v in t.items()}
    if how == "nan_x_root":
        bad["x"][0] = float("nan")
    elif how == "nan_x_mid":
        bad["x"][len(bad["x"]) // 2] = float("nan")
    else:
        bad["x"][-1] = float("inf")
    try:
        with np.errstate(all="ignore"):
            v = get_volume(common.build_tree(bad, source="poison"), accuracy=level)
        return "returned" if v == v else "returned_nan"
    except Exception as e:  # noqa: BLE001
        return type(e).__name__


def prepare(program: dict):
    """-> (tree model with float32 values, axial positions or None, axis or None, overlap class, n)"""
    kind = program["kind"]
    if kind == "arbitrary":
        t = {k: ([f32(v) for v in vals] if k in "xyzr" else list(vals)) for k, vals in program["tree"].items()}
        t["r"] = [max(f32(abs(v)), f32(0.05)) for v in t["r"]]
        pos = None
        axis = None
        overlap = "na"
    else:
        t, pos = layout(program)
        axis = program["axis"]
        lens = [abs(pos[i] - pos[t["pid"][i]]) < t["r"][i] + t["r"][t["pid"][i]] for i in range(1, len(pos))]
        overlap = "overlap" if any(lens) else "apart"
    n = len(t["pid"])
    perm = program.get("perm")
    if perm and len(perm) == n:
        # renumber: node i becomes node perm[i] (the root stays 0); the model follows
        inv = [0] * n
        for old_i, new_i in enumerate(perm):
            inv[new_i] = old_i
        t = {k: [t[k][inv[j]] for j in range(n)] for k in t}
        t["pid"] = [(-1 if q == -1 else perm[q]) for q in t["pid"]]
        if pos is not None:
            pos = [pos[inv[j]] for j in range(n)]
    return t, pos, axis, overlap, n


def execute(program: dict) -> dict:
    violation = None
    states = []
    steps = 0
    kind = program["kind"]
    t, pos, axis, overlap, n = prepare(program)
    rounds = [None] + list(program.get("edits") or []) + [{"axis": a} for a in (program.get("followup_axes") or [])]
    with World() as world:
        if program.get("logging") == "debug":
            import io as _io
            import logging as _logging

            _root = _logging.getLogger()
            _root.setLevel(_logging.DEBUG)
            _root.addHandler(_logging.StreamHandler(_io.StringIO()))
            world.probe("c14.debug_logging_enabled")
        if n >= 1000:
            world.probe("c14.tree_of_1000_nodes_or_more")
        if pos is not None:
            rr_, pp_ = t["r"], t["pid"]
            if any(rr_[q] != rr_[pp_[q]] and abs(rr_[q] - rr_[pp_[q]]) <= 1e-4 * max(rr_[q], rr_[pp_[q]]) for q in range(1, len(pp_))):
                world.probe("c14.neighbouring_radii_nearly_equal")
            if any(rr_[q] == 0.0 and rr_[pp_[q]] == 0.0 for q in range(1, len(pp_))):
                world.probe("c14.compartment_of_zero_thickness")
        try:
            tree = common.build_tree(t, source="gen", comments=program.get("comments"), custom_names=bool(program.get("custom_names")))
            shared: dict = {"level_type": program.get("level_type", "int"), "fp_errors": program.get("fp_errors"), "warnings": program.get("warnings")}
            for ri, edit in enumerate(rounds):
              if violation:
                  break
              schedules = program["schedules"]
              if edit is not None and "axis" in edit:
                  # session history: the same solid along another direction, a new tree object, same process
                  t, pos, axis, overlap, n = prepare(dict(program, axis=edit["axis"]))
                  tree = common.build_tree(t, source="gen", comments=program.get("comments"), custom_names=bool(program.get("custom_names")))
                  shared = {"level_type": program.get("level_type", "int"), "fp_errors": program.get("fp_errors"), "warnings": program.get("warnings")}
                  schedules = program["schedules"][:1]
                  world.log("followup_axis", ri, [float.hex(float(v)) for v in edit["axis"]])
                  world.probe("c14.followup_tree_other_direction")
              elif edit is not None:
                  i = edit["node"] % n
                  new_r = f32(t["r"][i] * edit["factor"])
                  if edit["on"] == "copy":
                      tree = tree.copy()
                      shared = {"level_type": program.get("level_type", "int"), "fp_errors": program.get("fp_errors"), "warnings": program.get("warnings")}
                  tree.node(i).r = new_r
                  t["r"][i] = float(tree.node(i).r)
                  world.log("edit", ri, i, edit["on"], float.hex(t["r"][i]))
              for level in program["levels"]:
                  lv = LEVEL_NAMES.get(level, level)
                  if kind != "arbitrary" and lv >= 3:
                      exp = union_reference(pos, t["r"], t["pid"])
                      tol = 2e-4
                  elif lv <= 2:
                      exp = level12_reference(t, lv)
                      tol = 5e-5
                  else:
                      continue
                  first = None
                  for si, s in enumerate(schedules):
                      steps += 1
                      install_schedule(world, s, axis)
                      try:
                          got = call_volume(tree, level, program["api"], shared)
                      except Exception as e:  # noqa: BLE001
                          violation = {"tag": "raised", "op": f"level{lv}/{type(e).__name__}",
                                       "detail": f"{type(e).__name__}: {e}"[:300]}
                          break
                      world.log(str(level), si, s["kind"], float.hex(got))
                      if si == 0 and program.get("poison"):
                          world.log("poison", poison_call(t, level, program["poison"]))
                          world.fired("failed_call_in_between")
                      if not abs(got - exp) <= tol * abs(exp):
                          violation = {"tag": "wrong_volume", "op": f"level{lv if lv < 3 else '>=3'}:{kind}",
                                       "detail": f"accuracy={level!r}: reported {got!r}, reference {exp!r} "
                                                 f"(rel err {(got - exp) / exp:+.3g}) on a {kind} tree of {n} nodes, "
                                                 f"schedule {s['kind']}"}
                          break
                      if first is None:
                          first = got
                      elif abs(got - first) > 1e-5 * abs(first):
                          violation = {"tag": "schedule_dependence", "op": f"level{lv}",
                                       "detail": f"accuracy={level!r}: {first!r} under the first schedule, {got!r} under `{s['kind']}`"}
                          break
                      states.append(f"{kind}|{min(n, 12)}|{overlap}|{lv}|{s['kind']}")
                      if program.get("mc") and lv >= 5:
                          world.probe("c14.mc_branch_taken")
                  if violation:
                      break
        finally:
            world.rng_inject.clear()
        faults = dict(world.faults)
        probes = dict(world.probes)
        digest = world.digest()
    unequal = len(set(t["r"])) > 1
    lvmax = max(LEVEL_NAMES.get(v, v) for v in program["levels"])
    nontrivial = kind != "arbitrary" and lvmax >= 3 and (overlap == "overlap" or unequal)
    return {"violation": violation, "digest": digest, "steps": steps, "faults": faults, "probes": probes,
            "nontrivial": nontrivial, "config": program.get("config", "fault_free"), "states": states}


# ---------------------------------------------------------------------------


def shrink_candidates(program: dict):
    yield from shrink.drop_from_list(program, ["schedules"], min_len=1)
    yield from shrink.drop_from_list(program, ["levels"], min_len=1)
    if program["kind"] == "arbitrary":
        t = program["tree"]
        for i in range(len(t["pid"]) - 1, 0, -1):
            if i in t["pid"]:
                continue
            p = copy.deepcopy(program)
            for k in p["tree"]:
                del p["tree"][k][i]
            p["tree"]["pid"] = [(q - 1 if q > i else q) for q in p["tree"]["pid"]]
            yield p
        return
    for arm in ("arm_a", "arm_b"):
        yield from shrink.drop_from_list(program, [arm], min_len=1 if arm == "arm_a" else 0)
        for i, (f, r) in enumerate(program[arm]):
            if r != 1.0:
                yield shrink.with_value(program, [arm, i, 1], 1.0)
            if f not in (1.0, 1.5):
                yield shrink.with_value(program, [arm, i, 0], 1.5)
    if program["r0"] != 1.0:
        yield shrink.with_value(program, ["r0"], 1.0)
    if program["axis"] != [0.0, 0.0, 1.0]:
        yield shrink.with_value(program, ["axis"], [0.0, 0.0, 1.0])
    if program["offset"] != [0.0, 0.0, 0.0]:
        yield shrink.with_value(program, ["offset"], [0.0, 0.0, 0.0])
    if program.get("scale", 1.0) != 1.0:
        yield shrink.with_value(program, ["scale"], 1.0)
    if program["api"] != "get_volume":
        yield shrink.with_value(program, ["api"], "get_volume")
    if program.get("perm"):
        yield shrink.with_value(program, ["perm"], None)
    if program.get("edits"):
        yield from shrink.drop_from_list(program, ["edits"])


FINDING_PREDICATES: dict = {}
