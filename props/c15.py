"""C15 - Neurolucida ASC conversion is faithful to the document.

System under simulation: NeurolucidaAscToSwc reading a stored document through the stream
stack (a path on the simulated disk, a text wrapper over a faulty raw stream, or a string
stream), character by character.  Each run generates one well-formed single-tree document
from models/asc_model and then a list of variants: the bare document, the decorated
document (colour markers and comments), truncations (every offset of small documents,
sampled offsets of large ones), single-point corruptions, and an EIO part-way through the
read.  The oracle is by construction + the independent recogniser:

  complete document            -> exactly the expected node table
  truncated / corrupted / EIO  -> an exception must reach the caller (never a partial tree)
"""

from __future__ import annotations

import copy
import io

import numpy as np

from models import asc_model
from models.asc_model import Reject
from simkit import shrink
from simkit.prng import Prng
from simkit.world import StreamPlan, World

PROP = "C15"
LEVEL = "fault_enumeration"
TIERS = {"quick": 2400, "thorough": 80000}
RULE = (
    "one run = one generated single-tree document (label Axon/Dendrite in any letter case; branches of 1-40 points, "
    "thorough: up to 5000; splits nested 0-8 deep, thorough: up to 60, with 2-4 alternatives of which any may be "
    "empty; numbers spelled as integers, decimals, signed, leading-dot, exponent forms; arbitrary blanks, tabs and "
    "newlines between tokens) and 3-8 variants of it, each read through a path on the simulated disk (LF or CRLF), "
    "a TextIOWrapper over a faulty raw stream, or a string stream, under a generated chunk/buffer schedule: bare; "
    "decorated with colour markers and comments at the positions the grammar allows (must give the identical "
    "table); truncate (every offset when the text is <= 220 characters, else ~200 evenly spread offsets plus "
    "token boundaries +-1); corrupt one point (number replaced by a word, number deleted, fifth number inserted, "
    "closing bracket of the point deleted); EIO at a byte offset inside the document; rewrite (the file is converted, "
    "replaced in place by a same-length document with one digit changed and its modification time restored, and "
    "converted again). 12% of the points repeat the point they hang on. Distinct = distinct "
    "event-log digest; non-trivial = the document has at least one split and at least one faulted variant was "
    "judged."
)
STATE_MEASURE = "distinct (nesting depth, number of points bucket, variant kind, source kind, verdict) tuples"
COMPONENTS = {
    "real": ["swcgeom.transforms.neurolucida_asc (Lexer, Parser, from_ast, convert, from_stream)", "swcgeom.core.tree",
             "CPython io stack (FileIO-equivalent raw, BufferedReader, TextIOWrapper, newline translation)"],
    "stub": [],
    "replaced_leaf_functions": ["builtins.open/io.open (simulated disk + stream stack)"],
}
ASSUMPTIONS = [
    "supported grammar = models/asc_model.py: one tree; every non-empty alternative starts with at least one point; "
    "a branch ends at its split; colour markers before the label and wherever a point may start; comments wherever "
    "a point may start inside the tree body; documents outside it are not generated (verdict EITHER)",
    "a proper prefix of a well-formed document that is not itself a complete document 'ends prematurely'",
    "a malformed point = a bracketed point whose content is not exactly four numbers; replacement words are never "
    "numeric in any reading (no nan/inf)",
    "deleting the opening bracket of a point, or brackets of splits, is judged EITHER and not generated",
    "'raises an error' = any Exception subclass propagates; RecursionError on a well-formed document is a violation",
]

LABELS = ["Axon", "Dendrite", "axon", "DENDRITE", "AXON", "dendrite", "DenDrite"]
COLORS = ["Red", "Blue", "MoneyGreen", "Yellow", "RGB", "DarkCyan"]
NUMS = ["0", "1", "-1", "2.5", "-3.25", "+4", ".5", "-.75", "1e-3", "1E+2", "12.", "007", "123456.789", "0.0001",
        "-0.00005", "3.4e38", "1e-40", "65536", "0.1", "9.999"]
BAD_WORDS = ["abc", "x1", "1..2", "--3", "1e", "1,5", "0x10", "-", "e5", "1.2.3", "2,", ",3", "4;"]
SEPS = ["", " ", " ", "  ", "\t", "\n", "\n    ", " \n\t", "\n\n"]


# ---------------------------------------------------------------------------
# generation


def gen_num(rng: Prng) -> str:
    if rng.chance(0.5):
        return rng.choice(NUMS)
    v = rng.randint(-99999, 99999) / rng.choice([1, 10, 100, 1000])
    return repr(v) if rng.chance(0.7) else f"{v:.3f}"


def gen_deco(rng: Prng) -> list:
    out = []
    for _ in range(rng.choice([1, 1, 2])):
        if rng.chance(0.5):
            out.append(["color", rng.choice(COLORS)])
        else:
            out.append(["comment", rng.choice(["", " Root", " R-1-2", " (1 2 3 4)", " | )", " End of split", " End of split",
                                               " 25 µm", " was\x0c(9 9 9 9)", " vt\x0b| nel\x85) ls\u2028( 1 2 3 4 )", " fs\x1c(", " Ástrocyte Ý", " слой А-я", " 束 神经元", " naïve – “quoted”"])])
    return out


def gen_body(rng: Prng, depth: int, maxdepth: int, maxpts: int, budget: list, above=None) -> dict:
    npts = rng.choice([1, 1, 2, 3, 5, 8, maxpts]) if budget[0] > 0 else 1
    npts = max(1, min(npts, budget[0]))
    budget[0] -= npts
    pts = []
    for _ in range(npts):
        prev = pts[-1] if pts else above
        if prev is not None and rng.chance(0.12):
            # a point that repeats the point it hangs on (coincident samples are common in traced data);
            # sometimes only the radius differs
            pt = list(prev)
            if rng.chance(0.3):
                pt[3] = gen_num(rng)
        else:
            pt = [gen_num(rng) for _ in range(4)]
        pts.append(pt)
    body: dict = {"points": pts}
    if depth < maxdepth and budget[0] > 0 and rng.chance(0.75 if depth < 3 else 0.55):
        nalt = rng.choice([2, 2, 2, 3, 4])
        alts = []
        for _ in range(nalt):
            if rng.chance(0.15):
                alts.append(None)
            elif alts and alts[-1] is not None and rng.chance(0.12):
                # an alternative that repeats its sibling point for point, sub-branches included (two equal twigs)
                import copy as _copy

                alts.append(_copy.deepcopy(alts[-1]))
            else:
                alts.append(gen_body(rng, depth + 1, maxdepth, maxpts, budget, above=pts[-1]))
        body["split"] = alts
    return body


def add_deco(rng: Prng, body: dict | None, p: float, top: bool = True):
    if body is None:
        return
    d = {}
    for i in range(len(body["points"])):
        if rng.chance(p):
            d[str(i)] = gen_deco(rng)
            if top and i == 0:
                # between the label and the first point only colour markers are in the supported grammar
                d[str(i)] = [x for x in d[str(i)] if x[0] == "color"] or [["color", "Red"]]
    if rng.chance(p):
        d["end"] = gen_deco(rng)
    if body.get("split") is not None and rng.chance(p):
        d["tail"] = gen_deco(rng)  # after the closing bracket of the split (`) ; End of split`)
    if d:
        body["deco"] = d
    for a in body.get("split") or []:
        add_deco(rng, a, p, False)


def gen_stream(rng: Prng) -> dict:
    d: dict = {}
    if rng.chance(0.6):
        d["chunks"] = [rng.choice([1, 1, 2, 3, 5, 7, 17, 64, 4096]) for _ in range(rng.randint(1, 4))]
    if rng.chance(0.5):
        d["buffer_size"] = rng.choice([1, 2, 3, 7, 16, 61, 512, 8192])
    if rng.chance(0.5):
        d["text_chunk"] = rng.choice([1, 2, 5, 64, 8192])
    return d


def generate(rng: Prng, tier: str) -> dict:
    w = rng.stream("workload")
    sp = rng.stream("stream.chunk")
    fp = rng.stream("fault.plan")
    big = w.chance(0.015)
    if big:
        maxdepth = w.choice([0, 1, 2])
        maxpts = w.choice([1200, 2500, 5000]) if tier == "thorough" else 1200
        budget = [maxpts + 50]
    else:
        maxdepth = w.choice([0, 1, 1, 2, 3, 4, 6, 8]) if tier == "quick" else w.choice([0, 1, 2, 3, 5, 8, 20, 60])
        maxpts = w.choice([1, 2, 3, 5, 12, 40])
        budget = [w.choice([6, 12, 30, 80, 200])]
    doc = {"label": w.choice(LABELS), "body": gen_body(w, 0, maxdepth, maxpts, budget)}
    wd = rng.stream("wide")
    if not big and wd.chance(0.012):
        # "any number of alternatives": one split with more than a thousand of them (mostly single points, some empty),
        # optionally one level down
        nalt = wd.randint(1050, 2200)
        alts = [None if wd.chance(0.1) else {"points": [[gen_num(wd) for _ in range(4)] for _ in range(wd.choice([1, 1, 2]))]}
                for _ in range(nalt)]
        wide = {"points": [[gen_num(wd) for _ in range(4)] for _ in range(wd.randint(1, 3))], "split": alts}
        if wd.chance(0.4):
            wide = {"points": [[gen_num(wd) for _ in range(4)]], "split": [{"points": [[gen_num(wd) for _ in range(4)]]}, wide]}
        doc["body"] = wide
        big = True
    seps = [w.choice(SEPS) for _ in range(w.randint(1, 7))]
    variants = []
    kinds = ["bare", "decorated", "truncate", "corrupt", "eio"]
    for _ in range(w.randint(3, 8) if not big else 3):
        kind = w.weighted([("bare", 2), ("decorated", 3), ("truncate", 4), ("corrupt", 4), ("eio", 2), ("rewrite", 2)])
        v: dict = {"kind": kind, "source": w.weighted([("path", 4), ("path_crlf", 2), ("wrapper", 2), ("string", 3)]),
                   "stream": gen_stream(sp) if w.chance(0.6) else {}}
        if kind == "decorated":
            v["dseed"] = fp.below(1 << 30)
            v["p"] = fp.choice([0.1, 0.3, 0.7])
            v["pre"] = [fp.choice(COLORS) for _ in range(fp.choice([0, 0, 1, 2]))]
        elif kind == "truncate":
            v["mode"] = "all" if not big else "sample"
            v["f"] = fp.random()
        elif kind == "corrupt":
            v["how"] = fp.choice(["word", "word", "delete_num", "extra_num", "delete_close"])
            v["point"] = fp.below(1 << 20)
            v["field"] = fp.below(4)
            v["word"] = fp.choice(BAD_WORDS)
        elif kind == "eio":
            v["f"] = fp.random()
        if kind in ("bare", "decorated") and v["source"] == "string":
            il = rng.stream(f"interleave{len(variants)}")
            if il.chance(0.35):
                v["interleave"] = il.choice([1, 2, 3, 5, 8, 13, 21, 40, 90, 200, 500])
        if kind == "rewrite":
            v["point"] = fp.below(1 << 20)
            v["field"] = fp.below(4)
            v["keep_mtime"] = fp.chance(0.7)
            v["source"] = "path"
        variants.append(v)
    if big:
        # a document of tens of kilobytes always gets two densely annotated variants: wherever a reader cuts its input
        # into blocks, some comment or colour marker then straddles the cut
        bg = rng.stream("big.decorated")
        for src in ("path", "string"):
            variants.append({"kind": "decorated", "source": src, "stream": {}, "dseed": bg.below(1 << 30), "p": 0.7,
                             "pre": []})
    assert kinds
    return {"prop": PROP, "doc": doc, "seps": seps, "variants": variants,
            "config": "faulting" if any(v["kind"] in ("truncate", "corrupt", "eio") for v in variants) else "fault_free"}


# ---------------------------------------------------------------------------
# execution


class Bad(Exception):
    def __init__(self, tag, op, detail):
        super().__init__(detail)
        self.v = {"tag": tag, "op": op, "detail": str(detail)[:400]}


def depth_of(body) -> int:
    # iterative
    best, stack = 0, [(body, 0)]
    while stack:
        b, d = stack.pop()
        if b is None:
            continue
        best = max(best, d)
        for a in b.get("split") or []:
            stack.append((a, d + 1))
    return best


def convert(world: World, text: str, variant: dict, tag: str, eio_frac=None):
    """Feed `text` to the converter through the variant's source kind. -> Tree (or raises).

    eio_frac: place an I/O error at that fraction of the stored data, never beyond the final
    closing bracket (so a converter that reads the whole document must meet it)."""
    from swcgeom.transforms import NeurolucidaAscToSwc

    src = variant["source"]
    data = text.replace("\n", "\r\n") if src == "path_crlf" else text
    eio_at = None
    if eio_frac is not None:
        eio_at = min(int(eio_frac * len(data)), data.rfind(")"))
        world.log("eio_at", eio_at, len(data))
    plan_d = dict(variant.get("stream") or {})
    if eio_at is not None and src != "string":
        plan_d["eio_at"] = eio_at
    plan = StreamPlan.from_json(plan_d)
    if src in ("path", "path_crlf"):
        rel = f"{tag}.asc"
        path = world.put(rel, data.encode("utf-8"))
        world.read_plans[rel] = plan
        if variant.get("call", 0) % 2:
            return NeurolucidaAscToSwc()(path)
        return NeurolucidaAscToSwc.convert(path)
    if src == "wrapper" and variant.get("call", len(text)) % 4 == 3 and eio_at is None:
        # a stream opened on a file DESCRIPTOR (open(fd), os.fdopen, TemporaryFile, a pipe): its `.name` is an int
        import os as _os

        rel = f"{tag}.fd.asc"
        path = world.put(rel, text.encode("utf-8"))
        fd = _os.open(path, _os.O_RDONLY)
        with open(fd, "r", encoding="utf-8") as stream:
            world.probe("c15.stream_on_a_file_descriptor")
            return NeurolucidaAscToSwc.from_stream(stream)
    if src == "wrapper":
        return NeurolucidaAscToSwc.from_stream(world.text_wrapper_source(text.encode("utf-8"), plan, "utf-8"))
    stream = world.string_source(text, eio_at)
    k = variant.get("interleave")
    if k is not None and eio_at is None:
        # two conversions interleaved at the I/O seam: at the k-th read of this stream another document is converted to
        # completion (what a second task, thread or coroutine converting at the same time amounts to, with the
        # simulator deciding where it cuts in), then this one goes on. Both must come out right.
        calls = [0]
        inner_read = stream.read

        def read(size=-1):
            calls[0] += 1
            if calls[0] == k:
                other = NeurolucidaAscToSwc.from_stream(io.StringIO("( (Color Red) (Dendrite)\n (12345 -6789 43210 2.5)\n (98765 4321 -1234 1.25) )\n"))
                got = [float(v) for c in "xyzr" for v in other.get_ndata(c)]
                if got != [12345.0, 98765.0, -6789.0, 4321.0, 43210.0, -1234.0, 2.5, 1.25] or [int(v) for v in other.pid()] != [-1, 0]:
                    raise Bad("node_values", "interleaved:other", f"the document converted in between came out as {got}")
                world.probe("c15.conversion_interleaved_at_a_read")
            return inner_read(size)

        stream.read = read
    return NeurolucidaAscToSwc.from_stream(stream)


def compare(tree, exp: dict, op: str):
    n = len(exp["pid"])
    if len(tree) != n:
        raise Bad("node_count", op, f"{len(tree)} nodes for {n} points")
    ids = [int(v) for v in tree.id()]
    if ids != list(range(n)):
        raise Bad("ids", op, f"ids are not 0..n-1 in document order: {ids[:8]}")
    pid = [int(v) for v in tree.pid()]
    if pid != exp["pid"]:
        i = next(i for i in range(n) if pid[i] != exp["pid"][i])
        raise Bad("parent", op, f"point {i}: parent {pid[i]}, expected {exp['pid'][i]}")
    typ = [int(v) for v in tree.type()]
    if typ != exp["type"]:
        raise Bad("type", op, f"types {typ[:6]} expected {exp['type'][:6]}")
    for k in "xyzr":
        got = np.asarray(tree.get_ndata(k), dtype=np.float32)
        e = np.array(exp[k], dtype=np.float32)
        if got.shape != e.shape or got.tobytes() != e.tobytes():
            i = next(i for i in range(n) if np.float32(got[i]).tobytes() != np.float32(e[i]).tobytes())
            raise Bad("coord", op, f"point {i}: {k} = {got[i]!r}, document says {e[i]!r}")


def must_accept(world, text, variant, exp, op, tag):
    try:
        tree = convert(world, text, variant, tag)
    except Exception as e:  # noqa: BLE001
        raise Bad("rejected_wellformed", f"{op}/{type(e).__name__}",
                  f"well-formed document rejected: {type(e).__name__}: {e} <- {type(e.__cause__).__name__}: {e.__cause__}") from None
    compare(tree, exp, op)
    kept = getattr(world, "retained", None)
    if kept is not None and len(kept) < 5:
        kept.append((tree, exp, op))


def recheck_retained(world, k: int, label: str):
    """History step: convert an unrelated small document, then look again at the trees returned by earlier
    conversions of this run.  A result must stay the conversion of *its* document whatever is converted later
    (a converter that fills a table shared between calls hands out trees that change under their owner)."""
    kept = getattr(world, "retained", None) or []
    if not kept:
        return
    other = {"label": "Axon" if label.upper().startswith("D") else "Dendrite",
             "body": {"points": [[str(100 + k), "-2", "3.5", "0.5"], [str(101 + k), "-2.25", "4", "0.75"]],
                      "split": [{"points": [[str(102 + k), "0", "1", "0.25"]]},
                                {"points": [[str(103 + k), "7", "1e1", "1.5"], ["8", "9", "10", "0.125"]]}]}}
    t_other, _ = asc_model.render(asc_model.tokens_of(other), [" ", "\n", " ", " "])
    keep, world.retained = world.retained, None
    try:
        must_accept(world, t_other, {"source": "string", "stream": {}}, asc_model.expected_table(other),
                    "bystander:string", f"by{k}")
    finally:
        world.retained = keep
    for tree, exp, op in kept:
        try:
            compare(tree, exp, op)
        except Bad as b:
            raise Bad("result_changed", f"{op.split(':')[0]}:after_later_conversion",
                      f"a tree returned earlier no longer matches its document after another document was "
                      f"converted: {b.v['detail']}") from None
    world.probe("c15.retained_rechecked", len(kept))


def must_reject(world, text, variant, op, tag, why, eio_frac=None):
    try:
        tree = convert(world, text, variant, tag, eio_frac)
    except RecursionError:
        return "RecursionError"
    except Exception as e:  # noqa: BLE001
        return type(e).__name__
    raise Bad("accepted_broken", op, f"{why}: converted to a tree of {len(tree)} nodes instead of raising")


def point_token_index(tokens, k: int):
    """Indices (popen, num0..num3, pclose) of the k-th point."""
    opens = [i for i, (r, _) in enumerate(tokens) if r == "popen"]
    i = opens[k % len(opens)]
    return i


def execute(program: dict) -> dict:
    violation = None
    states: list = []
    steps = 0
    judged_fault = False
    trunc_budget = 2400000
    doc = program["doc"]
    with World() as world:
        try:
            base_tokens = asc_model.tokens_of(doc)
            text, spans = asc_model.render(base_tokens, program["seps"])
            exp = asc_model.expected_table(doc)
            try:
                chk = asc_model.recognise(text)
            except Reject as r:
                raise AssertionError(f"builder produced a document its recogniser rejects: {r}") from None
            if chk != exp:
                raise AssertionError("builder and recogniser disagree on the node table")
            npts = len(exp["pid"])
            depth = depth_of(doc["body"])
            bucket = f"d{min(depth, 9)}n{min(npts, 9) if npts < 10 else (npts // 10) * 10 if npts < 100 else 100}"
            world.log("doc", len(text), npts, depth)
            if len(text) > 8000:
                trunc_budget = 1000000  # big documents: fewer truncation offsets, the annotated variants matter there
            world.retained = []
            for vi, v in enumerate(program["variants"]):
                if vi:
                    recheck_retained(world, vi, doc["label"])
                steps += 1
                kind = v["kind"]
                src = v["source"]
                op = f"{kind}:{src.split('_')[0]}"
                tag = f"v{vi}"
                if kind == "bare":
                    must_accept(world, text, v, exp, op, tag)
                    world.log(vi, op, "accepted")
                elif kind == "decorated":
                    d2 = copy.deepcopy(doc)
                    drng = Prng(v["dseed"])
                    add_deco(drng, d2["body"], v["p"])
                    d2["pre_colors"] = list(v["pre"])
                    t2, _ = asc_model.render(asc_model.tokens_of(d2), program["seps"])
                    try:
                        if asc_model.recognise(t2) != exp:
                            raise AssertionError("decoration changed the recogniser's table")
                    except Reject as r:
                        raise AssertionError(f"decorated document rejected by the recogniser: {r}") from None
                    must_accept(world, t2, v, exp, op, tag)
                    world.probe("c15.decorated_judged")
                    world.log(vi, op, "accepted", len(t2))
                elif kind == "truncate":
                    n = len(text)
                    if v["mode"] == "all" and n <= 220:
                        offs = list(range(n))
                    else:
                        # bound the characters re-parsed: 1.5 M per variant, 2.4 M per run (a 10 000 character
                        # document with four truncation variants otherwise costs 10-20 s)
                        share = max(0, min(1500000, trunc_budget))
                        trunc_budget -= share
                        step = max(1, n // max(8, min(200, share // n)))
                        offs = sorted(set(list(range(0, n, step)) + [min(n - 1, max(0, int(v["f"] * n)))]
                                          + [e for s, e in spans[-12:]] + [max(0, e - 1) for s, e in spans[-12:]]))
                        offs = [o for o in offs if 0 <= o < n]
                    outcomes = []
                    for k in offs:
                        prefix = text[:k]
                        try:
                            e2 = asc_model.recognise(prefix)
                        except Reject:
                            e2 = None
                        sub = f"{op}@{k}"
                        if e2 is not None:
                            must_accept(world, prefix, v, e2, op, f"{tag}k{k}")
                            outcomes.append("A")
                        else:
                            must_reject(world, prefix, v, op, f"{tag}k{k}",
                                        f"document truncated at offset {k} of {n} ends prematurely")
                            outcomes.append("R")
                            world.fired("truncated")
                            judged_fault = True
                        del sub
                    world.log(vi, op, "".join(outcomes).count("R"), "".join(outcomes).count("A"))
                elif kind == "corrupt":
                    toks = list(base_tokens)
                    i = point_token_index(toks, v["point"])
                    how = v["how"]
                    if how == "word":
                        toks[i + 1 + v["field"]] = (f"num{v['field']}", v["word"])
                    elif how == "delete_num":
                        del toks[i + 1 + v["field"]]
                    elif how == "extra_num":
                        toks.insert(i + 1 + v["field"], ("numx", "7"))
                    else:
                        del toks[i + 5]
                    t2, _ = asc_model.render(toks, program["seps"])
                    try:
                        asc_model.recognise(t2)
                        raise AssertionError(f"corruption {how} left a document the recogniser accepts")
                    except Reject as r:
                        if r.kind not in ("point", "eof"):
                            # e.g. deleting the last ')' of the last point of the document body shifts the
                            # failure elsewhere: not clearly a malformed point -> verdict EITHER
                            world.log(vi, op, how, "either", r.kind)
                            states.append(f"{bucket}|{kind}|{src}|either")
                            continue
                    out = must_reject(world, t2, v, f"{op}:{how}", tag, f"point corrupted by `{how}`")
                    world.fired(f"corrupt_{how}")
                    judged_fault = True
                    world.log(vi, op, how, out)
                elif kind == "rewrite":
                    # storage history: the file is converted, then replaced IN PLACE by a document of the same
                    # length whose one coordinate differs (modification time restored, as rsync -t / cp -p /
                    # an archive extraction would), and converted again: the answer must follow the file
                    import os as _os

                    toks = list(base_tokens)
                    i = point_token_index(toks, v["point"])
                    j = i + 1 + v["field"]
                    word = toks[j][1]
                    if not word[-1].isdigit():
                        world.log(vi, op, "no digit to change")
                        continue
                    new_word = word[:-1] + str((int(word[-1]) + 1) % 10)
                    toks[j] = (toks[j][0], new_word)
                    t2, _ = asc_model.render(toks, program["seps"])
                    try:
                        exp2 = asc_model.recognise(t2)
                    except Reject as r:
                        raise AssertionError(f"rewritten document rejected by the recogniser: {r}") from None
                    if len(t2) != len(text):
                        raise AssertionError("rewrite changed the length")
                    from swcgeom.transforms import NeurolucidaAscToSwc

                    rel = f"{tag}.asc"
                    path = world.put(rel, text.encode("utf-8"))
                    world.read_plans[rel] = StreamPlan.from_json(v.get("stream") or {})
                    try:
                        first = NeurolucidaAscToSwc.convert(path)
                    except Exception as e:  # noqa: BLE001
                        raise Bad("rejected_wellformed", f"{op}/{type(e).__name__}", f"{type(e).__name__}: {e}") from None
                    compare(first, exp, op)
                    st = _os.stat(path)
                    world.put(rel, t2.encode("utf-8"))
                    if v["keep_mtime"]:
                        _os.utime(path, ns=(st.st_atime_ns, st.st_mtime_ns))
                    try:
                        second = NeurolucidaAscToSwc()(path)
                    except Exception as e:  # noqa: BLE001
                        raise Bad("rejected_wellformed", f"{op}/{type(e).__name__}", f"{type(e).__name__}: {e}") from None
                    compare(second, exp2, f"{op}:second_read")
                    compare(first, exp, f"{op}:first_result_after_second_read")
                    world.fired("file_replaced_in_place")
                    judged_fault = True
                    world.log(vi, op, v["keep_mtime"], "ok")
                elif kind == "eio":
                    before = world.faults.get("eio_read", 0)
                    out = must_reject(world, text, v, op, tag, "I/O error inside the document", eio_frac=v["f"])
                    if world.faults.get("eio_read", 0) == before:
                        # an exception, but not ours: the well-formed document was rejected for another reason
                        raise Bad("rejected_wellformed", f"{op}/{out}", f"{out} raised before the planned I/O error was met")
                    judged_fault = True
                    world.log(vi, op, out)
                states.append(f"{bucket}|{kind}|{src}")
                world.take_warnings()
            recheck_retained(world, len(program["variants"]), doc["label"])
        except Bad as e:
            violation = e.v
            world.log("violation", violation["tag"], violation["op"])
        faults = dict(world.faults)
        probes = dict(world.probes)
        digest = world.digest()
    has_split = doc["body"].get("split") is not None
    return {"violation": violation, "digest": digest, "steps": steps, "faults": faults, "probes": probes,
            "nontrivial": has_split and judged_fault, "config": program.get("config", "fault_free"), "states": states}


# ---------------------------------------------------------------------------


def _bodies(body, path):
    """Yield (path, body) for every body in the document (iteratively)."""
    stack = [(path, body)]
    while stack:
        p, b = stack.pop()
        if b is None:
            continue
        yield p, b
        for k, a in enumerate(b.get("split") or []):
            stack.append((p + ["split", k], a))


def shrink_candidates(program: dict):
    yield from shrink.drop_from_list(program, ["variants"], min_len=1)
    if program["seps"] != [" "]:
        yield shrink.with_value(program, ["seps"], [" "])
    bodies = list(_bodies(program["doc"]["body"], ["doc", "body"]))
    bodies.sort(key=lambda pb: len(pb[0]))
    for p, b in bodies[:60]:
        if b.get("split") is not None:
            q = copy.deepcopy(program)
            shrink._get(q, p).pop("split")
            yield q
            yield from shrink.drop_from_list(program, p + ["split"], min_len=1)
            for k, a in enumerate(b["split"]):
                if a is not None:
                    yield shrink.with_value(program, p + ["split", k], None)
                    # hoist: replace this body by one of its alternatives' content appended
        if len(b["points"]) > 1:
            yield from shrink.drop_from_list(program, p + ["points"], min_len=1)
        for i, pt in enumerate(b["points"][:6]):
            if pt != ["1", "2", "3", "4"]:
                yield shrink.with_value(program, p + ["points", i], ["1", "2", "3", "4"])
    for vi, v in enumerate(program["variants"]):
        if v.get("stream"):
            yield shrink.with_value(program, ["variants", vi, "stream"], {})
        if v["source"] != "string":
            yield shrink.with_value(program, ["variants", vi, "source"], "string")
        if v["kind"] == "truncate" and v.get("mode") == "all":
            pass
    if program["doc"]["label"] != "Axon":
        yield shrink.with_value(program, ["doc", "label"], "Axon")


FINDING_PREDICATES: dict = {}
