"""C02 - SWC reading keeps every data row, in order, or fails loudly.

System under simulation: the SWC reader (read_swc / Tree.from_swc) on top of a
simulated disk and stream stack.  A run stores one text, damages it with
storage faults (token corruption, dropped fields, duplicated / deleted / swapped
lines, truncation, byte flips, undecodable bytes), then reads it 1-3 times through
different source kinds, options and stream schedules (chunk sizes, short reads,
tiny buffers, EIO at a byte offset).  The oracle is models.swc_text applied to the
bytes that are actually stored.
"""

from __future__ import annotations

import copy

import pathlib

import numpy as np

from models import swc_text
from models.swc_text import EITHER, MUST_ACCEPT, MUST_REJECT
from simkit import shrink
from simkit.prng import Prng
from simkit.world import SimIOError, StepBudgetExceeded, StreamPlan, World

PROP = "C02"
LEVEL = "fault_enumeration"
TIERS = {"quick": 6000, "thorough": 200000}
LOCALE_VARIES = True  # three of the sixteen shards run in a non-UTF-8 locale (simkit/runner.py: hashseed_for)
RULE = (
    "one run = one SWC text assembled token by token from the line grammar (random tree, "
    "whitespace/sign/decimal/exponent spellings, comments, blank lines, CRLF, extra fields), "
    "0-2 storage faults (bad token, dropped fields, duplicated/deleted/swapped line, truncation, "
    "byte flip, undecodable byte) and 1-3 reads (read_swc | Tree.from_swc; path | BytesIO | "
    "TextIOWrapper | StringIO source; sort_nodes/reset_index/extra_cols/encoding options) each "
    "under its own stream schedule (raw chunk sizes, buffer size, decode chunk, optional EIO "
    "offset). Distinct = distinct event-log digest; non-trivial = at least one data row was "
    "stored and, in faulting configurations, at least one fault actually fired."
)
STATE_MEASURE = "distinct (verdict, outcome class, source kind, api, options, fault kinds) tuples"
COMPONENTS = {
    "real": ["swcgeom.core.swc_utils.io", "swcgeom.utils.file.FileReader", "swcgeom.core.tree.Tree.from_swc",
             "swcgeom.core.swc_utils.normalizer", "CPython io stack (BufferedReader, TextIOWrapper, codecs)",
             "tmpfs files under the SimDisk root", "pandas", "numpy"],
    "stub": [],
    "replaced_leaf_functions": ["builtins.open", "io.open"],
}
ASSUMPTIONS = [
    "the reference recogniser models/swc_text.py states the SWC line grammar correctly",
    "texts on which the property is silent (nan/inf, exotic blanks, lone CR, no data rows, non-numeric "
    "trailing fields, fewer fields than requested columns) are judged EITHER and never flagged",
    "ids < 2**31 and |coordinates| < 1e30",
]

ENCODINGS = ["utf-8", "utf-8", "utf-8", "latin-1", "utf-16"]
COMMENT_POOL_ASCII = ["", " soma", "x", " CREATED BY tool v1.2", "\tindented", " a # b", " 1 1 0 0 0 1 -1",
                      " scale 1.0 1.0 1.0", "# double", " source: /data/n1.swc", "source: x", " SCALE 0.5 0.5 2.0",
                      " ID,Type,X,Y,Z,R,PID"]
JUNK_LINES = ["\x1a", "EOF", "end", "*", "\x00", "@", "...", "<<<<<<< HEAD", "1 1 0 0 0 1", "\x1a\x1a", "\xa0?"]
COMMENT_POOL_UNI = [" neurone né à Zürich", " 神经元 形态", " µm ± 0.5", " ½ ¼ é"]
COMMENT_POOL_LATIN = [" né à Zürich", " µm ± 0.5", " ½ ¼ é"]
# numeric to Python, not to the SWC grammar: verdict EITHER, but an accepting reader must read Python's value
LENIENT_TOKENS = ["1_0", "2_000.5", "0_2", "+3", "5e-0_1", "1_000", "00_7"]
BAD_TOKENS = ["abc", "x", "1x", "--", "?", "1;2", "NaN%", "soma", "1..2", "e", "+-1", "1,5", "2,0", "0,", ",", "3,25", "1:2", "1/2"]


# ---------------------------------------------------------------------------
# generation


def float_token(rng: Prng) -> str:
    kind = rng.below(12)
    sign = rng.choice(["", "", "-", "+"])
    if kind == 0:
        return sign + str(rng.below(1000))
    if kind == 1:
        return sign + f"{rng.below(100)}."
    if kind == 2:
        return sign + f".{rng.below(1000):03d}"
    if kind == 3:
        return sign + f"{rng.below(100)}.{rng.below(10000)}e{rng.choice(['', '-', '+'])}{rng.below(12)}"
    if kind == 4:
        return sign + f"{rng.below(10)}E{rng.choice(['', '-', '+'])}{rng.below(20)}"
    if kind == 5:
        return "0"
    if kind == 6:
        return "-0.0"
    if kind == 7:
        return sign + f"{rng.below(10**9)}.{rng.below(10**9):09d}"
    if kind == 8:
        return sign + f".{rng.below(10)}e{rng.below(10)}"
    return sign + f"{rng.below(2000)}.{rng.below(10000):04d}"


def radius_token(rng: Prng) -> str:
    if rng.chance(0.8):
        return f"{rng.below(50)}.{rng.below(1000):03d}" if rng.chance(0.7) else str(1 + rng.below(9))
    return float_token(rng)


def gen_topology(rng: Prng, n: int, sort_mode: bool):
    """-> (ids, pids) in file order."""
    shape = rng.below(4)
    parent = [-1] * n
    for i in range(1, n):
        if shape == 0:
            parent[i] = i - 1
        elif shape == 1:
            parent[i] = 0
        elif shape == 2:
            parent[i] = rng.below(i)
        else:
            parent[i] = max(0, i - 1 - rng.below(3))
    if sort_mode:
        pool = rng.sample(list(range(0, max(4 * n, 50))), n) if rng.chance(0.7) else \
            [rng.below(2**31 - 1) for _ in range(n)]
        if rng.chance(0.08):
            # 64-bit sample numbers (hashes, database keys): neighbours differ by less than a float64 can tell
            hi = rng.choice([2**53, 2**60, 2**62])
            pool = [hi + v for v in rng.sample(list(range(0, 3 * n + 9)), n)]
        if len(set(pool)) != n:
            pool = rng.sample(list(range(0, 4 * n + 50)), n)
        ids = pool
        order = rng.permutation(n)
        return [ids[i] for i in order], [(-1 if parent[i] < 0 else ids[parent[i]]) for i in order]
    base = rng.choice([0, 1, 1, 1, 2, 17, 1000, 2**31 - 1 - n, 2**31 + 5, 2**53 + 1, 2**60 + 7])
    ids = [base + i for i in range(n)]
    pids = [(-1 if p < 0 else base + p) for p in parent]
    if rng.chance(0.08):  # arbitrary ids, plain row order (no sorting asked)
        ids2 = rng.sample(list(range(0, 5 * n + 10)), n)
        m = dict(zip(ids, ids2))
        return ids2, [(-1 if p == -1 else m[p]) for p in pids]
    return ids, pids


def align_line_end(lines: list[str], target: int) -> bool:
    """Insert one padding comment so that some line of the text ends (terminator included) exactly at character
    offset `target`: a reader that consumes the stream in fixed-size blocks then finds a complete line at the very
    end of a block (target = block size), or one character short of / beyond it (target = block size -+ 1)."""
    prefix = 0
    best = None
    for j, l in enumerate(lines):
        if prefix + len(l) + 2 <= target and l.endswith("\n"):
            best = (j, prefix)
        prefix += len(l)
        if prefix > target:
            break
    if best is None or prefix <= target:
        return False
    j, pre = best
    pad = target - pre - len(lines[j])
    if pad < 2 or pad > 4000:
        return False
    lines.insert(j, "#" + "p" * (pad - 2) + "\n")
    assert sum(len(l) for l in lines[: j + 2]) == target
    return True


def gen_lines(rng: Prng, tier: str, sort_mode: bool, n_extra: int, encoding: str, align: dict | None = None):
    big = tier == "thorough" and rng.chance(0.02)
    if align:
        n = align["block"] * align["mult"] // 24 + 60  # rows are at least ~14 characters: the text passes the target
        if sort_mode:
            n = min(n, 1200)  # the isomorphism oracle is quadratic-ish: keep sorted files below ~30 k characters
    elif big:
        n = rng.randint(800, 6000)
    else:
        n = rng.choice([1, 1, 2, 3, 3, 5, 8, 13, 30, 80]) if rng.chance(0.8) else rng.randint(1, 400)
    ids, pids = gen_topology(rng, n, sort_mode)
    sep_pool = [" ", " ", " ", "  ", "\t", " \t ", "   "]
    fancy_ws = rng.chance(0.5)
    eol_main = rng.choice(["\n", "\n", "\r\n"])
    mixed_eol = rng.chance(0.15)
    trailing_rows = rng.chance(0.3)
    lines = []
    cpool = COMMENT_POOL_ASCII + (COMMENT_POOL_UNI if encoding in ("utf-8", "utf-16") else COMMENT_POOL_LATIN)
    if align:
        cpool = COMMENT_POOL_ASCII  # one character = one byte, so character and byte offsets coincide (utf-8, latin-1)
    n_comments = 0

    def eol():
        return rng.choice(["\n", "\r\n"]) if mixed_eol else eol_main

    def comment():
        nonlocal n_comments
        n_comments += 1
        lead = rng.choice(["", "", " ", "\t", "  "])
        body = rng.choice(cpool)
        if rng.chance(0.7):
            body = f"{body} c{n_comments}"
        return lead + "#" + body + eol()

    if rng.chance(0.5):
        for _ in range(rng.below(4)):
            lines.append(comment())
    if rng.chance(0.4):
        lines.append("# id type x y z r pid" + eol())
    for i in range(n):
        toks = [
            ("0" * rng.below(3) if rng.chance(0.03) else "") + str(ids[i]),
            str(rng.choice([0, 1, 2, 3, 4, 5, 6, 7, 3, 3, rng.below(2**31)])),
            float_token(rng), float_token(rng), float_token(rng), radius_token(rng),
            str(pids[i]),
        ]
        toks += [float_token(rng) for _ in range(n_extra)]
        if trailing_rows and rng.chance(0.3):
            toks += [float_token(rng) for _ in range(1 + rng.below(4))]
        if fancy_ws:
            lead = rng.choice(["", "", " ", "\t", "   "])
            s = lead + toks[0]
            for t in toks[1:]:
                s += rng.choice(sep_pool) + t
            s += rng.choice(["", "", " ", "\t", "  "])
        else:
            s = " ".join(toks)
        lines.append(s + eol())
        if rng.chance(0.06):
            lines.append(rng.choice(["", " ", "\t", "   "]) + eol())
        if rng.chance(0.05):
            lines.append(comment())
    if align:
        align["done"] = align_line_end(lines, align["block"] * align["mult"] + align["delta"])
    if rng.chance(0.3) and lines:
        # last line without terminator
        last = lines[-1]
        lines[-1] = last.rstrip("\r\n")
    return lines


def data_line_indices(lines: list[str]) -> list[int]:
    return [i for i, l in enumerate(lines) if swc_text.classify_line(l.rstrip("\r\n"), 0)[0] == "data"]


def apply_line_faults(rng: Prng, lines: list[str], applied: list[str]) -> None:
    """Storage faults at the granularity of tokens and lines (done on the stored text)."""
    k = rng.weighted([(1, 6), (2, 2)])
    for _ in range(k):
        idx = data_line_indices(lines)
        if not idx:
            return
        i = rng.choice(idx)
        # bias toward the first and last data line
        if rng.chance(0.3):
            i = rng.choice([idx[0], idx[-1]])
        kind = rng.weighted([("badtoken", 4), ("dropfields", 3), ("dupline", 1), ("delline", 1),
                             ("swaplines", 1), ("gluelines", 1), ("junkline", 2)])
        line = lines[i]
        body = line.rstrip("\r\n")
        eol = line[len(body):]
        toks = body.split()
        if kind == "badtoken":
            f = rng.below(min(7, len(toks)))
            toks[f] = rng.choice(BAD_TOKENS)
            if rng.chance(0.12):
                toks[f] = rng.choice(LENIENT_TOKENS)
                if f == 6 and toks[f] != "5e-0_1":
                    toks[f] = "-1" if rng.chance(0.2) else toks[f]
            lines[i] = " ".join(toks) + eol
        elif kind == "dropfields":
            keep = rng.randint(1, 6)
            lines[i] = " ".join(toks[:keep]) + eol
        elif kind == "junkline":
            # a whole line that is neither data, comment nor blank (an end-of-file marker, a merge-conflict marker)
            lines.insert(i + (1 if eol else 0), rng.choice(JUNK_LINES) + (eol or "\n"))
        elif kind == "dupline":
            lines.insert(i, line if eol else line + "\n")
        elif kind == "delline":
            del lines[i]
        elif kind == "swaplines" and len(idx) > 1:
            j = rng.choice(idx)
            if not lines[i].endswith("\n") or not lines[j].endswith("\n"):
                continue
            lines[i], lines[j] = lines[j], lines[i]
        elif kind == "gluelines":
            # the terminator is lost: two rows on one line
            if i + 1 < len(lines) and eol:
                lines[i] = body + " " + lines[i + 1]
                del lines[i + 1]
            else:
                continue
        else:
            continue
        applied.append(kind)


def gen_stream(rng: Prng, faulting: bool) -> dict:
    if rng.chance(0.25):
        return {}
    d = {}
    if rng.chance(0.7):
        d["chunks"] = [rng.choice([1, 1, 2, 3, 5, 7, 17, 64, 4096]) for _ in range(rng.randint(1, 4))]
    if rng.chance(0.7):
        d["buffer_size"] = rng.choice([1, 2, 3, 7, 16, 61, 512, 8192])
    if rng.chance(0.7):
        d["text_chunk"] = rng.choice([1, 2, 5, 64, 8192])
    return d


def generate(rng: Prng, tier: str) -> dict:
    w = rng.stream("workload")
    fp = rng.stream("fault.plan")
    sp = rng.stream("stream.chunk")
    faulting = rng.stream("config").chance(0.6)
    encoding = w.choice(ENCODINGS)
    n_extra = w.weighted([(0, 7), (1, 2), (3, 1)])
    sort_mode = w.chance(0.3)
    al = rng.stream("align")
    align = None
    if al.chance(0.03) and encoding != "utf-16":
        # a line end exactly on (or one character beside) a power-of-two block boundary, far into the file
        align = {"block": al.choice([4096, 8192, 8192, 65536, 65536, 65536, 32768, 16384, 131072]),
                 "mult": al.choice([1, 1, 1, 2]), "delta": al.choice([0, 0, 0, -1, 1])}
        if align["block"] * align["mult"] > 140000:
            align["mult"] = 1
        if al.chance(0.12):
            # texts of one or two MiB (tens of thousands of rows): a reader that pulls its input in bulk with a size
            # hint, or gives up after some amount, differs only beyond that amount
            align["block"], align["mult"] = 1048576, 1
    lines = gen_lines(w, tier, sort_mode, n_extra, encoding, align)
    # a Tree keeps its ids in 32-bit columns: 64-bit sample numbers only reach it re-based (reset_index=True)
    wide_ids = any(t[:1] and t[0].lstrip("+").isdigit() and int(t[0]) >= 2**31 for t in (l.split() for l in lines))
    applied: list[str] = []
    byte_faults = []
    if faulting:
        mode = fp.weighted([("line", 5), ("byte", 4), ("eio_only", 3), ("both", 1)])
        if mode in ("line", "both"):
            apply_line_faults(fp, lines, applied)
        if mode in ("byte", "both"):
            for _ in range(fp.weighted([(1, 5), (2, 1)])):
                kind = fp.weighted([("truncate", 4), ("flip", 2), ("badutf8", 3), ("cutmb", 1)])
                byte_faults.append({"k": kind, "at": round(fp.random(), 6),
                                    "byte": fp.choice([0xFF, 0xFE, 0xC3, 0x80, 0x00, 0x41, 0x0A, 0x23, 0x20])})
    steps = []
    for s in range(w.weighted([(1, 5), (2, 3), (3, 2)])):
        source = w.choice(["path", "path", "bytes", "textwrapper", "string"])
        api = w.choice(["read_swc", "read_swc", "Tree.from_swc"])
        opts = {"sort_nodes": sort_mode, "reset_index": w.chance(0.75)}
        if encoding != "utf-8" or w.chance(0.2):
            opts["encoding"] = encoding
        if n_extra and api == "read_swc":
            opts["extra_cols"] = [f"e{i}" for i in range(n_extra)]
            xn = rng.stream(f"extra_names{s}")
            if xn.chance(0.4):
                # the names other tools give to extended (eswc) columns - a name says nothing about the values a row
                # carries there: every requested field is still "numerically equal to what the row says"
                opts["extra_cols"] = xn.sample(["level", "mode", "timestamp", "teraflyindex", "feature_value", "seg_id",
                                                "label", "score", "e0"], n_extra)
        elif n_extra:
            # Tree.from_swc keeps the seven standard columns; extra fields are "beyond the requested columns"
            pass
        if wide_ids and api == "Tree.from_swc":
            opts["reset_index"] = True
        step = {"source": source, "api": api, "opts": opts, "stream": gen_stream(sp, faulting)}
        if rng.stream(f"detect{s}").chance(0.3):
            step["detect"] = True  # encoding="detect" whenever the stored bytes turn out to be pure ASCII
        if faulting and (mode == "eio_only" or fp.chance(0.1)):
            if s == 0 or fp.chance(0.5):
                step["eio"] = round(fp.random(), 6) if fp.chance(0.85) else fp.choice([0.0, 1.0])
        steps.append(step)
    if align and align["block"] >= 1 << 20:
        # cost bound: byte-sized chunks add nothing at this scale and would cost tens of seconds per read
        for step in steps:
            st = step["stream"]
            if "chunks" in st:
                st["chunks"] = [max(c, 997) for c in st["chunks"]]
            for k in ("buffer_size", "text_chunk"):
                if k in st:
                    st[k] = max(st[k], 509)
    ps = rng.stream("population")
    for step in steps:
        if ps.chance(0.1):
            # the property's third observation point: the lazy read behind Population[...] (options are forwarded)
            step["source"], step["api"] = "population", "Tree.from_swc"
            step["opts"].pop("extra_cols", None)
            if wide_ids:
                step["opts"]["reset_index"] = True
            step["pop"] = {"k": ps.below(3), "via": ps.choice(["index", "neg", "slice", "slice", "iter"]),
                           "detect": ps.chance(0.3)}
    return {"prop": PROP, "encoding": encoding, "lines": lines, "applied": applied, "align": align,
            "byte_faults": byte_faults, "steps": steps, "config": "faulting" if faulting else "fault_free"}


# ---------------------------------------------------------------------------
# execution


def stored_bytes(program: dict, fired: dict) -> bytes:
    text = "".join(program["lines"])
    enc = program["encoding"]
    data = text.encode(enc)
    for f in program.get("byte_faults", []):
        n = len(data)
        if n == 0:
            break
        at = min(n - 1, int(f["at"] * n))
        if f["k"] == "truncate":
            data = data[:at]
        elif f["k"] == "flip":
            data = data[:at] + bytes([f["byte"]]) + data[at + 1:]
        elif f["k"] == "badutf8":
            data = data[:at] + bytes([f["byte"] | 0x80]) + data[at:]
        elif f["k"] == "cutmb":
            # cut in the middle of the last multi-byte character, if any
            idx = [i for i, b in enumerate(data) if b >= 0xC0]
            if idx:
                data = data[: idx[-1] + 1]
            else:
                continue
        fired[f["k"]] = fired.get(f["k"], 0) + 1
    return data


def _float_exact(tok: str) -> float:
    return float(tok)


def expected_columns(rows, n_extra_cols):
    cols = {
        "id": [r["id"] for r in rows],
        "type": [r["type"] for r in rows],
        "x": [_float_exact(r["x"]) for r in rows],
        "y": [_float_exact(r["y"]) for r in rows],
        "z": [_float_exact(r["z"]) for r in rows],
        "r": [_float_exact(r["r"]) for r in rows],
        "pid": [r["pid"] for r in rows],
    }
    for k in range(n_extra_cols):
        cols[f"e{k}"] = [_float_exact(r["extra"][k]) for r in rows]
    return cols


def _same_float(a, b) -> bool:
    a = np.asarray(a, dtype=np.float64)
    b = np.asarray(b, dtype=np.float64)
    if a.shape != b.shape:
        return False
    return bool(np.all((a == b) | (np.isnan(a) & np.isnan(b))))


def norm_comments(cs):
    return [c.strip() for c in cs if not swc_text.is_header_comment(c)]


def extract(api: str, result, n_extra_cols: int, names=None):
    """-> (columns dict of lists, comments) from a DataFrame+comments or a Tree."""
    if api == "read_swc":
        df, comments = result
        cols = {k: df[k].to_numpy().tolist() for k in ["id", "type", "x", "y", "z", "r", "pid"]}
        for k in range(n_extra_cols):
            nm = names[k] if names else f"e{k}"
            cols[f"e{k}"] = df[nm].to_numpy().tolist() if nm in df.columns else [float("nan")] * len(df)
            if nm not in df.columns:
                cols.setdefault("_missing", []).append(nm)
        lens = {len(df[c]) for c in df.columns}
        return cols, list(comments), lens
    tree = result
    cols = {k: np.asarray(tree.get_ndata(k)).tolist() for k in ["id", "type", "x", "y", "z", "r", "pid"]}
    lens = {len(np.asarray(tree.get_ndata(k))) for k in tree.keys()}
    return cols, list(tree.comments), lens


def judge(step, verdict, outcome, n_extra_cols, warns) -> dict | None:
    api = step["api"]
    v = verdict["verdict"]
    kind = outcome[0]
    if kind == "budget":
        return {"tag": "hang", "op": api, "detail": "step budget exceeded"}
    if v == MUST_REJECT:
        if kind == "ok":
            cols, _, _ = extract(api, outcome[1], 0)
            return {"tag": "accepted_malformed", "op": api,
                    "detail": f"{verdict['why']}; returned {len(cols['id'])} rows"}
        return None
    if v == EITHER:
        # tokens Python reads as numbers but the strict grammar does not: rejecting is fine, and so is accepting - with
        # the one defensible reading. Judged like an accepted text, under tags of their own.
        if kind != "ok" or "if_accepted" not in verdict:
            return None
        w = judge(step, dict(verdict["if_accepted"], verdict=MUST_ACCEPT), outcome, n_extra_cols, warns)
        if w is not None:
            w["tag"] = "lenient_" + w["tag"]
            w["detail"] = f"accepted a text with {verdict['why']}, but: " + w["detail"]
        return w
    rows = verdict["rows"]
    opts = step["opts"]
    single_tree = swc_text.describes_single_tree(rows)
    if kind == "raised":
        if not single_tree:
            # forests, dangling or duplicate ids: every line is a data row, but whether such a
            # graph may be refused is outside C02 (multi-root reading is C18's subject)
            return None
        return {"tag": "rejected_wellformed", "op": api, "detail": f"{outcome[1]}: {outcome[2][:200]}"}
    cols, comments, lens = extract(api, outcome[1], n_extra_cols, step["opts"].get("extra_cols"))
    if cols.get("_missing"):
        return {"tag": "column_missing", "op": api, "detail": f"requested column(s) {cols['_missing']} are not in the table"}
    if len(lens) != 1:
        return {"tag": "ragged_table", "op": api, "detail": f"column lengths {sorted(lens)}"}
    n = len(cols["id"])
    if n != len(rows):
        return {"tag": "row_count", "op": api, "detail": f"{n} rows returned for {len(rows)} data lines"}
    exp = expected_columns(rows, n_extra_cols)
    f32 = api == "Tree.from_swc"
    if opts.get("sort_nodes"):
        if not single_tree:
            return None
        ids, pids = cols["id"], cols["pid"]
        if ids != list(range(n)):
            return {"tag": "sort_not_sorted", "op": api, "detail": "ids are not 0..n-1"}
        if pids[0] != -1 or any(not (0 <= pids[i] < i) for i in range(1, n)):
            return {"tag": "sort_not_sorted", "op": api, "detail": "a parent does not precede its child"}

        def attrs(c, i):
            fl = [c[k][i] for k in ["x", "y", "z", "r"]] + [c[f"e{k}"][i] for k in range(n_extra_cols)]
            if f32:
                fl = [float(np.float32(x)) for x in fl]
            return (c["type"][i],) + tuple(fl)

        pos = {rid: i for i, rid in enumerate(exp["id"])}
        table: dict = {}
        a = swc_text.canonical_forms([attrs(exp, i) for i in range(n)],
                                     [(-1 if p == -1 else pos[p]) for p in exp["pid"]], table)
        b = swc_text.canonical_forms([attrs(cols, i) for i in range(n)], list(pids), table)
        if a != b:
            return {"tag": "sort_not_isomorphic", "op": api, "detail": "result is not isomorphic to the file's graph"}
    else:
        for k in ["type", "x", "y", "z", "r"] + [f"e{j}" for j in range(n_extra_cols)]:
            e = exp[k]
            if f32 and k != "type":
                e = [float(np.float32(x)) for x in e]
            if not _same_float(cols[k], e):
                bad = next(i for i in range(n) if not _same_float([cols[k][i]], [e[i]]))
                return {"tag": "field_mismatch", "op": api,
                        "detail": f"column {k} row {bad}: got {cols[k][bad]!r} expected {e[bad]!r}"}
        if verdict["n_roots"] == 1:
            if opts.get("reset_index", True):
                base = rows[verdict["first_root"]]["id"]
                eid = [i - base for i in exp["id"]]
                epid = [(-1 if p == -1 else p - base) for p in exp["pid"]]
            else:
                eid, epid = exp["id"], exp["pid"]
            fits = all(-2**31 <= v < 2**31 for v in eid + epid)
            # a Tree keeps ids in 32-bit columns: sample numbers that do not fit even after re-basing (a damaged 64-bit
            # id) cannot be carried by a Tree at all - the statement is silent there, nothing is demanded of id/pid
            if (fits or not f32) and (cols["id"] != eid or cols["pid"] != epid):
                return {"tag": "field_mismatch", "op": api, "detail": "id/pid columns differ from the rows"}
    if norm_comments(comments) != norm_comments(verdict["comments"]):
        return {"tag": "comments_mismatch", "op": api,
                "detail": f"got {norm_comments(comments)[:6]} expected {norm_comments(verdict['comments'])[:6]}"}
    beyond = verdict["any_trailing"] or (api == "Tree.from_swc" and any(r["extra"] for r in rows))
    if beyond and not warns:
        return {"tag": "missing_warning", "op": api, "detail": "extra fields were dropped without a warning"}
    return None


def read_through_population(root: str, kwargs: dict, how: dict):
    """Four files with the same bytes in one directory; one of them is requested through the population."""
    from swcgeom.core import Population

    pop = Population.from_swc(root, **kwargs)
    k, via = how["k"], how["via"]
    if via == "index":
        return pop[k]
    if via == "neg":
        return pop[k - len(pop)]
    if via == "slice":
        return pop[k:][0] if k % 2 else pop[0:k + 1][k]
    it = iter(pop)
    for _ in range(k):
        next(it)
    return next(it)


def execute(program: dict) -> dict:
    from swcgeom.core import Tree
    from swcgeom.core.swc_utils import read_swc

    fired: dict = {}
    for a in program.get("applied", []):
        fired[a] = fired.get(a, 0) + 1
    data = stored_bytes(program, fired)
    enc = program["encoding"]
    states = []
    violation = None
    accepted_tables = []
    steps_done = 0
    with World() as world:
        world.put("a/file.swc", data)
        if (program.get("align") or {}).get("done"):
            world.probe("c02.line_end_aligned_to_block_boundary")
        for si, step in enumerate(program["steps"]):
            opts = dict(step["opts"])
            n_extra_cols = len(opts.get("extra_cols", []))
            # fields a row must carry: 7 + requested columns
            verdict = swc_text.analyse(data, enc, n_extra_cols)
            plan_d = dict(step.get("stream", {}))
            eio = step.get("eio")
            source = step["source"]
            text = None
            if source == "string":
                try:
                    text = data.decode(enc)
                except UnicodeDecodeError:
                    source = "textwrapper"
            if eio is not None:
                total = len(text) if source == "string" else len(data)
                plan_d["eio_at"] = min(total, int(eio * (total + 1)))
                verdict = {"verdict": MUST_REJECT, "why": f"EIO at offset {plan_d['eio_at']} of {total}"}
                if 0 < plan_d["eio_at"] < total:
                    world.probe("c02.eio_mid_file")
            if verdict["verdict"] == MUST_ACCEPT and swc_text.graph_has_cycle(verdict["rows"]):
                # a damaged parent id closed a cycle: whether the reader's topology check
                # terminates on it is C18's subject; C02 is silent, the read is not issued
                world.log(si, "skipped: cyclic parent relation")
                world.probe("c02.skipped_cyclic")
                continue
            plan = StreamPlan.from_json(plan_d)
            kwargs = dict(opts)
            if "extra_cols" in kwargs:
                # the parameter is an Iterable of names: a list, a tuple, or something that can be walked only once
                names_ = list(kwargs["extra_cols"])
                form = (si + len(data)) % 4
                kwargs["extra_cols"] = [names_, tuple(names_), iter(names_), (nm for nm in names_)][form]
                if form >= 2:
                    world.probe("c02.extra_cols_as_one_shot_iterable")
            if step.get("detect") and source in ("path", "bytes") and enc in ("utf-8", "latin-1") and data.isascii():
                # a pure-ASCII file read with the encoding left to detection: there is nothing to get wrong - every
                # candidate encoding agrees on these bytes
                kwargs["encoding"] = "detect"
                world.probe("c02.ascii_text_read_with_encoding_detect")
            if source == "path":
                world.read_plans["a/file.swc"] = plan
                src = world.path("a/file.swc") if (si + len(data)) % 3 else pathlib.Path(world.path("a/file.swc"))
            elif source == "population":
                src = None
                detect_files = None
                if step["pop"].get("detect") and verdict["verdict"] == MUST_ACCEPT and eio is None:
                    try:
                        body = data.decode(enc)
                    except UnicodeDecodeError:
                        body = None
                    if body is not None:
                        # encoding="detect": the same data rows stored in four files of DIFFERENT encodings, each with a
                        # header that makes its encoding unmistakable (pure ASCII; long CJK + Cyrillic text in UTF-8;
                        # UTF-16 with byte-order mark) - every file has to be decoded by what IT is
                        rows_only = "".join(l for l in body.splitlines(keepends=True)
                                            if swc_text.classify_line(l.rstrip("\r\n"), 0)[0] != "comment")
                        heads = {"ascii": "# plain ascii header, nothing else\n",
                                 "utf-8": "# 神经元 形态 重建 数据 µm née Zürich 神经元 形态 重建 数据\n# ещё один комментарий на русском языке\n",
                                 "utf-16": "# 神经元 形态 重建 (utf-16 with byte-order mark)\n"}
                        detect_files = {}
                        for name, e in (("p/a.swc", "ascii"), ("p/sub/b.swc", "utf-8"), ("p/c.swc", "utf-16"),
                                        ("p/sub/deep/d.swc", "ascii")):
                            try:
                                blob = (heads[e] + rows_only).encode(e)
                            except UnicodeEncodeError:
                                detect_files = None
                                break
                            detect_files[name] = (blob, e)
                if detect_files:
                    for name, (blob, e) in detect_files.items():
                        world.put(name, blob)
                        world.read_plans[name] = plan
                    kwargs["encoding"] = "detect"
                    world.probe("c02.population_with_detected_encodings")
                else:
                    for name in ("p/a.swc", "p/sub/b.swc", "p/c.swc", "p/sub/deep/d.swc"):
                        world.put(name, data)
                        world.read_plans[name] = plan
                world.probe("c02.read_through_population")
            elif source == "bytes":
                src = world.bytes_source(data, plan)
            elif source == "textwrapper":
                src = world.text_wrapper_source(data, plan, enc)
                kwargs.pop("encoding", None)
            else:
                src = world.string_source(text, plan.eio_at)
                kwargs.pop("encoding", None)
            before = dict(world.faults)
            try:
                if source == "population":
                    res = read_through_population(world.path("p"), kwargs, step["pop"])
                    if detect_files:
                        # judged against the file that was actually handed out
                        rel = world.rel(res.source)
                        blob, e = detect_files[rel]
                        verdict = swc_text.analyse(blob, e, 0)
                elif step["api"] == "read_swc":
                    res = read_swc(src, **kwargs)
                else:
                    res = Tree.from_swc(src, **kwargs)
                outcome = ("ok", res)
            except StepBudgetExceeded:
                outcome = ("budget",)
            except Exception as e:  # noqa: BLE001 - "raises an error" = any Exception reaches the caller
                outcome = ("raised", type(e).__name__, str(e))
            warns = world.take_warnings()
            steps_done += 1
            if verdict["verdict"] == MUST_REJECT and "undecodable" in verdict.get("why", "") \
                    and len(data) > 8192:
                world.probe("c02.decode_error_in_large_file")
            if plan.chunks and min(plan.chunks) < 4 and any(b >= 0x80 for b in data):
                world.probe("c02.multibyte_under_tiny_chunks")
            if len(data) > 3 * 8192:
                world.probe("c02.file_spans_many_default_chunks")
            v = judge(step, verdict, outcome, n_extra_cols, warns)
            nrows = None
            if outcome[0] == "ok":
                cols, comments, _ = extract(step["api"], outcome[1], n_extra_cols, opts.get("extra_cols"))
                nrows = len(cols["id"])
                if v is None and verdict["verdict"] == MUST_ACCEPT and step["api"] == "read_swc":
                    accepted_tables.append((si, opts.get("sort_nodes"), opts.get("reset_index", True),
                                            n_extra_cols, cols))
            world.log(si, source, step["api"], verdict["verdict"], outcome[0],
                      nrows, outcome[1] if outcome[0] == "raised" else None, len(warns))
            fk = sorted(k for k in world.faults if world.faults[k] != before.get(k, 0))
            states.append("|".join([verdict["verdict"], outcome[0], source, step["api"],
                                    str(int(bool(opts.get("sort_nodes")))), str(int(opts.get("reset_index", True))),
                                    str(n_extra_cols), ",".join(sorted(fired)), ",".join(fk)]))
            if v is not None:
                v["step"] = si
                violation = v
                break
        # history check: the same stored bytes read with the same options under different
        # stream schedules must give the same table
        if violation is None:
            seen: dict = {}
            for si, srt, rst, nx, cols in accepted_tables:
                key = (srt, rst, nx)
                if srt:
                    continue  # sibling order may legitimately differ
                if key in seen and seen[key][1] != cols:
                    violation = {"tag": "schedule_dependence", "op": "read_swc",
                                 "detail": f"steps {seen[key][0]} and {si} read different tables from the same bytes"}
                    break
                seen.setdefault(key, (si, cols))
        for k, n in fired.items():
            world.faults[k] += n
        faults = dict(world.faults)
        probes = dict(world.probes)
        digest = world.digest()
    has_rows = any(swc_text.classify_line(l.rstrip("\r\n"), 0)[0] == "data" for l in program["lines"])
    injected = {k: n for k, n in faults.items() if k not in ("short_read", "short_write")}
    nontrivial = has_rows and (program.get("config") != "faulting" or bool(faults))
    return {"violation": violation, "digest": digest, "steps": steps_done, "faults": faults,
            "probes": probes, "nontrivial": nontrivial, "config": program.get("config", "fault_free"),
            "states": states, "injected": injected}


# ---------------------------------------------------------------------------
# shrinking


def shrink_candidates(program: dict):
    # fewer steps, fewer faults, fewer lines, simpler streams
    yield from shrink.drop_from_list(program, ["steps"], min_len=1)
    yield from shrink.drop_from_list(program, ["byte_faults"])
    yield from shrink.drop_from_list(program, ["lines"], min_len=1)
    for i, st in enumerate(program["steps"]):
        if st.get("stream"):
            yield shrink.with_value(program, ["steps", i, "stream"], {})
            for k in list(st["stream"]):
                p = copy.deepcopy(program)
                del p["steps"][i]["stream"][k]
                yield p
        if st["source"] != "path":
            yield shrink.with_value(program, ["steps", i, "source"], "path")
        if st["opts"].get("reset_index") is False:
            yield shrink.with_value(program, ["steps", i, "opts", "reset_index"], True)
        if "eio" in st and st["eio"] not in (0.0,):
            yield shrink.with_value(program, ["steps", i, "eio"], 0.0)
    if program["encoding"] != "utf-8":
        p = copy.deepcopy(program)
        p["encoding"] = "utf-8"
        for st in p["steps"]:
            st["opts"].pop("encoding", None)
        yield p
    # simplify individual lines: normalise whitespace
    for i, l in enumerate(program["lines"]):
        body = l.rstrip("\r\n")
        simple = " ".join(body.split()) + ("\n" if l != body else "")
        if simple != l:
            yield shrink.with_value(program, ["lines", i], simple)


FINDING_PREDICATES: dict = {}
