"""C03 - every tree operation returns a well-formed tree and leaves its inputs untouched.

System under simulation: a pool of live trees and a history of tree->tree operations on
them.  The history is what is explored: aliasing and purity are properties of call
histories (an operation that forgets one copy() is only exposed by a LATER edit of
either side).  After every step: the result is well-formed (I1), every other live tree
equals its bit-exact snapshot (I2), the result shares no storage with any other live tree
(I3), all columns have the same length (I4).  Fault kind: a caller callback that raises at
its k-th invocation in the middle of a traversal (cancellation); the inputs must still be
untouched.
"""

from __future__ import annotations

import copy
import io
import json

import numpy as np

from models import tree_model
from props import common
from simkit import shrink
from simkit.prng import Prng
from simkit.world import World

PROP = "C03"
LEVEL = "exploration"
TIERS = {"quick": 3200, "thorough": 100000}
RULE = (
    "one run = 1-2 generated well-formed trees (<= 40 nodes; sorted or merely well-formed numbering) and a "
    "program of up to 14 steps: apply (sort_tree, get_subtree, to_subtree, cut_tree enter/leave/neither, "
    "redirect_tree sort on/off, cat_tree translate on/off, CutByType/Axon/Dendrite, CutByFurcationOrder, "
    "CutShortTipBranch, Translate, Scale, Rotate, RotateX/Y/Z, TranslateOrigin, Normalizer, RadiusReseter, "
    "TreeSmoother, IsometricResampler, Transforms(...), copy, SWC round trip; arguments admissible by "
    "construction), edit (write through a node handle or a column) and cancel (callback raises at its k-th "
    "call). Distinct = distinct event-log digest; non-trivial = at least three steps executed of which one "
    "is an edit or a cancel following an apply."
)
STATE_MEASURE = "distinct (operation, result-shape class, pool size) tuples"
COMPONENTS = {
    "real": ["swcgeom.core.tree_utils", "swcgeom.core.tree_utils_impl", "swcgeom.core.swc_utils.subtree",
             "swcgeom.core.swc_utils.normalizer", "swcgeom.transforms.tree", "swcgeom.transforms.geometry",
             "swcgeom.transforms.branch_tree", "swcgeom.transforms.base", "swcgeom.core.swc (copy)", "numpy"],
    "stub": [],
    "replaced_leaf_functions": [],
}
ASSUMPTIONS = [
    "admissible arguments: node ids in range; removal sets and cut callbacks never designate the root; "
    "CutByType(t) only when some node has type t; furcation order >= 1; scale factors != 0; spacing > 0; "
    "rotation axes are unit vectors",
    "Identity and an empty Transforms() are documented to return their argument and are not exercised",
    "an operation that raises on admissible arguments has not yielded a well-formed tree (violation)",
    "re-rooting with sort=False is judged by the relaxed rule of the statement and its result is only fed to sort_tree",
]

SORTED_OPS = {"sort_tree", "redirect_sorted"}


# ---------------------------------------------------------------------------
# generation


def gen_model(rng: Prng, n: int) -> dict:
    t = tree_model.gen_tree(rng, n, wild=False, types=[0, 1, 2, 2, 3, 3, 3, 4, 5])
    t["type"][0] = rng.choice([1, 1, 1, 3, 0])
    if rng.chance(0.25):
        # integer lattice coordinates: exact coincidences and zero-length segments are possible
        for k in "xyz":
            t[k] = [float(rng.randint(-3, 3)) for _ in range(n)]
    elif rng.chance(0.15):
        # decimal grid: every node one step along a coordinate axis from its parent, the step a decimal fraction
        # (0.7, 0.35, 0.1, 1.5, ...) - branch lengths are then exact multiples of the usual spacings, up to float noise
        t["grid"] = True
        step = rng.choice([0.5, 0.5, 1.5, 0.25, 3.5, 1.0, 0.7, 10.5])  # dyadic steps: lengths exact in float32, so length/0.7, /0.1, /0.3 land within ulps of an integer
        for k in "xyz":
            t[k] = [0.0] * n
        for i in range(1, n):
            q = t["pid"][i]
            ax = "xyz"[rng.below(3)] if rng.chance(0.3) else "x"
            for k in "xyz":
                t[k][i] = t[k][q] + (step if k == ax else 0.0)
    elif rng.chance(0.12):
        # coincident points: whole branches of zero length
        for k in "xyz":
            t[k] = [float(rng.below(2)) if rng.chance(0.3) else 0.0 for _ in range(n)]
    if rng.chance(0.25) and n > 2:
        # a well-formed but unsorted numbering: permute the non-root positions
        perm = [0] + [1 + p for p in rng.permutation(n - 1)]  # new position of old node i
        inv = [0] * n
        for old, new in enumerate(perm):
            inv[new] = old
        t2 = {k: [t[k][inv[j]] for j in range(n)] for k in t if k != "grid"}
        t2["pid"] = [(-1 if t["pid"][inv[j]] == -1 else perm[t["pid"][inv[j]]]) for j in range(n)]
        if t.get("grid"):
            t2["grid"] = True
        t = t2
    if rng.chance(0.15):
        # extra per-node columns (eswc-style): part of the tree's storage like any other column
        t["x_level"] = [float(rng.randint(0, 9)) for _ in range(n)]
        if rng.chance(0.4):
            t["x_score"] = [rng.randint(-5, 5000) for _ in range(n)]
    return t


def gen_transform_spec(rng: Prng, depth: int = 0) -> dict:
    kind = rng.weighted([("translate", 3), ("scale", 3), ("rotate", 3), ("rotx", 1), ("roty", 1), ("rotz", 1),
                         ("origin", 2), ("normalizer", 2), ("radius", 2), ("smooth", 2), ("resample", 3),
                         ("cut_type", 2), ("cut_axon", 1), ("cut_dendrite", 1), ("cut_order", 2),
                         ("short_tip", 3), ("transforms", 2 if depth == 0 else 0)])
    center = rng.choice(["root", "origin", "soma"])
    if kind == "translate":
        return {"op": kind, "v": [round(rng.uniform(-50, 50), 3) for _ in range(3)]}
    if kind == "scale":
        return {"op": kind, "s": [rng.choice([0.5, 2.0, -1.0, 1.0, 3.25, 0.1]) for _ in range(3)], "center": center}
    if kind == "rotate":
        ax = rng.choice([[1, 0, 0], [0, 1, 0], [0, 0, 1], [0.6, 0.8, 0.0], [0.0, -0.6, 0.8],
                         [0.5773502691896258] * 3])
        return {"op": kind, "axis": ax, "theta": round(rng.uniform(-3.2, 3.2), 4), "center": center}
    if kind in ("rotx", "roty", "rotz"):
        return {"op": kind, "theta": round(rng.uniform(-3.2, 3.2), 4), "center": center}
    if kind in ("origin", "normalizer", "cut_axon", "cut_dendrite"):
        return {"op": kind}
    if kind == "radius":
        return {"op": kind, "r": rng.choice([0.5, 1.0, 2.5])}
    if kind == "smooth":
        return {"op": kind, "w": rng.choice([1, 2, 3, 5, 9])}
    if kind == "resample":
        return {"op": kind, "d": rng.choice([0.5, 1.0, 3.0, 10.0, 50.0, 1000.0, 0.7, 0.35, 0.1, 0.3, 2.1]),
                "adjust_last_gap": rng.chance(0.6)}
    if kind == "cut_type":
        return {"op": kind, "node": rng.below(64)}
    if kind == "cut_order":
        return {"op": kind, "order": rng.randint(1, 4)}
    if kind == "short_tip":
        return {"op": kind, "thre": rng.choice([0.0, 1.0, 5.0, 20.0, 80.0, 1e9]), "cb": rng.chance(0.3)}
    return {"op": "transforms", "seq": [gen_transform_spec(rng, depth + 1) for _ in range(rng.randint(1, 4))],
            "identity_first": rng.chance(0.25)}


def gen_step(rng: Prng) -> dict:
    k = rng.weighted([("apply", 10), ("edit", 5), ("cancel", 2), ("query", 3)])
    # which live tree: any of the pool, or (a third of the steps) the newest one - pipelines feed a result onward
    t = -1 if rng.chance(0.33) else rng.below(64)
    if k == "query":
        return {"k": "query", "t": t, "node": rng.below(64),
                "what": rng.choice(["branches", "paths", "tips", "furcations", "length", "traverse", "children",
                                    "segments", "node_subtree", "is_tip", "neurites"])}
    if k == "edit":
        return {"k": "edit", "t": t, "node": rng.below(64), "col": rng.choice(["x", "y", "z", "r", "type", "extra"]),
                "val": rng.randint(-9, 99), "via": rng.choice(["node", "ndata", "getitem"])}
    if k == "cancel":
        return {"k": "cancel", "t": t, "op": rng.choice(["cut_enter", "cut_leave", "short_tip", "traverse", "swc_rows", "swc_disk"]),
                "at": rng.randint(0, 12)}
    op = rng.weighted([("sort_tree", 2), ("get_subtree", 3), ("to_subtree", 3), ("cut_enter", 2), ("cut_leave", 2),
                       ("cut_none", 1), ("redirect", 4), ("cat", 5), ("copy", 1), ("roundtrip", 1),
                       ("transform", 14)])
    s = {"k": "apply", "op": op, "t": t}
    if op == "get_subtree":
        s["n"] = rng.below(64)
    elif op in ("to_subtree", "cut_enter", "cut_leave"):
        s["rm"] = [rng.below(64) for _ in range(rng.choice([0, 1, 1, 2, 3, 6]))]
    elif op == "redirect":
        s["n"] = rng.below(64) if rng.chance(0.75) else 0  # node 0 is the present root of every sorted tree
        s["sort"] = rng.chance(0.5)
    elif op == "cat":
        s.update(t2=rng.below(64), n1=rng.below(64), n2=rng.below(64) if rng.chance(0.6) else 0,
                 translate=rng.chance(0.5))
    elif op == "transform":
        s["spec"] = gen_transform_spec(rng)
    return s


def generate(rng: Prng, tier: str) -> dict:
    w = rng.stream("workload")
    n_trees = w.weighted([(1, 5), (2, 4)])
    big = 40 if tier == "quick" else 60
    trees = [gen_model(w, w.choice([1, 2, 3, 4, 5, 7, 10, 16, 25, big])) for _ in range(n_trees)]
    steps = [gen_step(w) for _ in range(w.randint(2, 14))]
    grid = any(t.pop("grid", False) for t in trees)
    if grid:
        # trees on a decimal grid are resampled at spacings their branch lengths are (noisy) multiples of
        gs = rng.stream("grid")
        for st in steps:
            if st.get("k") == "apply" and st.get("op") == "transform" and gs.chance(0.8):
                st["spec"] = {"op": "resample", "d": gs.choice([0.1, 0.3, 0.7, 0.35, 0.5, 0.05]), "adjust_last_gap": gs.chance(0.4)}
                if gs.chance(0.5):
                    st["t"] = gs.below(len(trees))  # one of the initial (grid) trees rather than a derived one
    rp = rng.stream("repeat")
    for i, st in enumerate(steps):
        # the SAME transform (same object: transforms are cached by their specification) applied again, to the newest
        # tree - typically its own earlier result: `b = f(a)` with `a = f(t)`
        earlier = [s2 for s2 in steps[:i] if s2.get("k") == "apply" and s2.get("op") == "transform"]
        if st.get("k") == "apply" and st.get("op") == "transform" and earlier and rp.chance(0.2):
            st["spec"] = copy.deepcopy(earlier[-1]["spec"])
            st["t"] = -1
    dp = rng.stream("deep")
    if dp.chance(0.02):
        # "starting from all well-formed trees": one run in ~80 starts from a tree of 1100-2400 nodes whose depth is
        # at least a third of that (an operation that recurses per node, or is quadratic in the node count, shows
        # only there), with a short program whose node arguments range over the whole tree
        n = dp.randint(1100, 2400) if dp.chance(0.6) else dp.randint(4097, 7000)
        t = tree_model.gen_tree(dp, n, dp.choice(["chain", "stemmed", "stemmed", "caterpillar"]), wild=False,
                                types=[0, 1, 2, 2, 3, 3, 3, 4, 5])
        t["type"][0] = dp.choice([1, 1, 3])
        trees = [t]
        steps = [gen_step(dp) for _ in range(dp.randint(2, 5))]
        for st in steps:
            if st["k"] == "apply" and st["op"] != "transform" and dp.chance(0.7):
                # every operation kind equally often on big trees (the ordinary mix favours transforms and cat_tree)
                st["op"] = dp.choice(["sort_tree", "get_subtree", "to_subtree", "cut_enter", "cut_leave", "cut_none",
                                      "redirect", "cat", "copy", "roundtrip", "roundtrip"])
                st.setdefault("n", dp.below(1 << 20))
                st.setdefault("rm", [dp.below(1 << 20) for _ in range(dp.below(4))])
                st.setdefault("sort", dp.chance(0.5))
                st.update({k: st.get(k, dp.below(1 << 20)) for k in ("t2", "n1", "n2")})
                st.setdefault("translate", dp.chance(0.5))
            for key in ("n", "n1", "n2", "node"):
                if key in st and st[key] != 0:
                    st[key] = dp.below(1 << 20)
            if "rm" in st:
                st["rm"] = [dp.below(1 << 20) for _ in st["rm"]]
    has_cancel = any(s["k"] == "cancel" for s in steps)
    return {"prop": PROP, "trees": trees, "steps": steps, "config": "faulting" if has_cancel else "fault_free"}


# ---------------------------------------------------------------------------
# execution


class CallbackCancelled(Exception):
    """Raised by a generated callback at its k-th invocation."""


def make_transform(spec: dict, tree, cache: dict):
    """-> transform object or None when the spec is inadmissible for this tree."""
    from swcgeom import transforms as T

    op = spec["op"]
    if op == "transforms":
        seq = []
        cur_types = None
        for sub in spec["seq"]:
            if sub["op"] in ("cut_type", "cut_axon", "cut_dendrite"):
                # admissibility of a type cut depends on the intermediate tree: keep pipelines type-free
                continue
            t = make_transform(sub, tree, cache)
            if t is not None:
                seq.append(t)
        if not seq:
            return None
        if spec.get("identity_first"):
            seq = [T.Identity()] + seq  # the first step hands its argument on untouched; the pipeline as a whole must still copy
        # Normalizer divides by the column maximum and may produce non-finite coordinates, which are not
        # an admissible input for the geometric steps after it: inside a pipeline it is only kept last
        seq = [t for t in seq if not isinstance(t, T.Normalizer)] + [t for t in seq if isinstance(t, T.Normalizer)][:1]
        return T.Transforms(*seq)
    key = json.dumps(spec, sort_keys=True)
    types = [int(v) for v in tree.type()]
    if op == "cut_type":
        return T.CutByType(types[spec["node"] % len(types)])
    if op == "cut_axon":
        return T.CutAxonTree() if 2 in types else None
    if op == "cut_dendrite":
        return T.CutDendriteTree() if 3 in types else None
    if op == "resample":
        # cost bound, decided on the harness side: a spacing that would produce more than ~3000 nodes on this
        # tree is widened (a pipeline of scalings followed by d=0.5 otherwise costs 10 s per run)
        xyz = np.stack([np.asarray(tree.x(), np.float64), np.asarray(tree.y(), np.float64),
                        np.asarray(tree.z(), np.float64)], axis=1)
        pid = np.asarray(tree.pid())
        length = float(np.sqrt(((xyz[1:] - xyz[pid[1:]]) ** 2).sum(axis=1)).sum()) if len(pid) > 1 else 0.0
        if np.isfinite(length) and length / spec["d"] > 3000:
            spec = dict(spec, d=float(f"{length / 3000:.3g}"))
            key = json.dumps(spec, sort_keys=True)
    if key in cache:
        return cache[key]  # transform objects are reused across steps: their scratch state must not leak
    if op == "translate":
        obj = T.Translate(*spec["v"])
    elif op == "scale":
        obj = T.Scale(*spec["s"], center=spec["center"])
    elif op == "rotate":
        obj = T.Rotate(np.array(spec["axis"], dtype=np.float32), spec["theta"], center=spec["center"])
    elif op == "rotx":
        obj = T.RotateX(spec["theta"], center=spec["center"])
    elif op == "roty":
        obj = T.RotateY(spec["theta"], center=spec["center"])
    elif op == "rotz":
        obj = T.RotateZ(spec["theta"], center=spec["center"])
    elif op == "origin":
        obj = T.TranslateOrigin()
    elif op == "normalizer":
        obj = T.Normalizer()
    elif op == "radius":
        obj = T.RadiusReseter(spec["r"])
    elif op == "smooth":
        obj = T.TreeSmoother(spec["w"])
    elif op == "resample":
        obj = T.IsometricResampler(spec["d"], adjust_last_gap=spec.get("adjust_last_gap", True))
    elif op == "cut_order":
        obj = T.CutByFurcationOrder(spec["order"])
    elif op == "short_tip":
        seen = []
        obj = T.CutShortTipBranch(spec["thre"], callback=(lambda br: seen.append(len(br))) if spec["cb"] else None)
    else:
        raise AssertionError(op)
    cache[key] = obj
    return obj


def removal_set(rm: list[int], n: int) -> list[int]:
    if n <= 1:
        return []
    return sorted({1 + (v % (n - 1)) for v in rm})


def apply_op(step: dict, pool: list, cache: dict):
    """-> (name, inputs, thunk) or None if inadmissible."""
    from swcgeom.core import Tree, cat_tree, cut_tree, get_subtree, redirect_tree, sort_tree, to_subtree

    op = step["op"]
    ti = step["t"] % len(pool)
    tree = pool[ti]["tree"]
    n = len(tree)
    relaxed = pool[ti].get("relaxed")
    if relaxed is not None and op == "redirect":
        # re-rooting an unsorted re-rooted tree again, this time sorted: at its present root (every other step) or
        # anywhere
        root_now = int(np.flatnonzero(np.asarray(tree.pid()) == -1)[0])
        k = root_now if step["n"] % 2 else step["n"] % n
        return "redirect_sorted", [ti], lambda: redirect_tree(tree, k, sort=True)
    if relaxed is not None and op not in ("sort_tree", "get_subtree"):
        # a tree re-rooted without sorting is only fed to sort_tree and get_subtree (both document sorted output)
        if op in ("to_subtree", "cut_enter", "cut_leave", "cut_none", "cat", "transform"):
            op = "get_subtree"
            step = dict(step, n=step.get("n1", len(step.get("rm", [])) + step["t"]))
        else:
            op = "sort_tree"
    if op == "sort_tree":
        return "sort_tree", [ti], lambda: sort_tree(tree)
    om = [None, None, {}, []][(step.get("n", 0) + len(step.get("rm", [])) + step["t"]) % 4]  # out_mapping: none / dict / list
    if op == "get_subtree":
        k = step["n"] % n
        return "get_subtree", [ti], lambda: get_subtree(tree, k) if om is None else get_subtree(tree, k, out_mapping=om)
    if op == "to_subtree":
        rm = removal_set(step["rm"], n)
        return "to_subtree", [ti], lambda: to_subtree(tree, rm) if om is None else to_subtree(tree, rm, out_mapping=om)
    if op == "cut_enter":
        rm = set(removal_set(step["rm"], n))
        return "cut_tree_enter", [ti], lambda: cut_tree(tree, enter=lambda nd, p: ((p or 0) + 1, int(nd.id) in rm))
    if op == "cut_leave":
        rm = set(removal_set(step["rm"], n))
        return "cut_tree_leave", [ti], lambda: cut_tree(tree, leave=lambda nd, ch: (len(ch), int(nd.id) in rm))
    if op == "cut_none":
        return "cut_tree_none", [ti], lambda: cut_tree(tree)
    if op == "redirect":
        k = step["n"] % n
        if step["sort"]:
            return "redirect_sorted", [ti], lambda: redirect_tree(tree, k, sort=True)
        return "redirect_unsorted", [ti], lambda: redirect_tree(tree, k, sort=False)
    if op == "cat":
        tj = step["t2"] % len(pool)
        if pool[tj].get("relaxed") is not None:
            tj = ti
        tree2 = pool[tj]["tree"]
        if set(tree.ndata) != set(tree2.ndata):
            return "cat_tree", sorted({ti, tj}), lambda: None  # different column sets: not an admissible pair
        n1, n2 = step["n1"] % n, step["n2"] % len(tree2)
        tr = step["translate"]
        return ("cat_tree", sorted({ti, tj}), lambda: cat_tree(tree, tree2, n1, n2, translate=tr))
    if op == "copy":
        return "copy", [ti], lambda: tree.copy()
    if op == "roundtrip":
        # the text numbered from 1 (the default), from 0, or from anywhere else
        off = [None, 0, 1, 7, 1000, None][(step["t"] + n) % 6]
        if off is None:
            return "swc_roundtrip", [ti], lambda: Tree.from_swc(io.StringIO(tree.to_swc()))
        return "swc_roundtrip", [ti], lambda: Tree.from_swc(io.StringIO(tree.to_swc(id_offset=off)))
    if op == "transform":
        spec = step["spec"]

        def run():
            t = make_transform(spec, tree, cache)
            if t is None:
                return None
            return t(tree)

        name = spec["op"] if spec["op"] != "transforms" else "Transforms"
        return f"T.{name}", [ti], run
    raise AssertionError(op)


def check_result(name: str, res, pool: list, step: dict) -> dict | None:
    from swcgeom.core import Tree

    if not isinstance(res, Tree):
        return {"tag": "not_a_tree", "detail": f"returned {type(res).__name__}"}
    cols = dict(res.ndata)
    lens = {k: (np.asarray(v).shape[0] if np.asarray(v).ndim >= 1 else -1) for k, v in cols.items()}
    if len(set(lens.values())) != 1 or any(np.asarray(v).ndim != 1 for v in cols.values()):
        return {"tag": "ragged_columns", "detail": f"column lengths {lens}"}
    ids = [int(v) for v in res.id()]
    pids = [int(v) for v in res.pid()]
    if name == "redirect_unsorted":
        root_at = step["n"] % len(pool[step["t"] % len(pool)]["tree"])
        why = tree_model.well_formed(ids, pids, sorted_required=False, root_at=root_at)
    else:
        why = tree_model.well_formed(ids, pids, sorted_required=name in SORTED_OPS)
    if why:
        return {"tag": "ill_formed", "detail": why}
    # I3: no shared storage with any other live tree
    for j, other in enumerate(pool):
        o = other["tree"]
        if o is res:
            return {"tag": "aliased", "detail": f"the result IS input tree {j}"}
        if res.ndata is o.ndata:
            return {"tag": "aliased", "detail": f"result and tree {j} share the column dict"}
        if res.comments is o.comments:
            return {"tag": "aliased", "detail": f"result and tree {j} share the comments list"}
        for ka, a in cols.items():
            for kb, b in o.ndata.items():
                if np.shares_memory(a, b):
                    return {"tag": "aliased", "detail": f"result column `{ka}` shares memory with column `{kb}` of tree {j}"}
    return None


def check_untouched(pool: list, skip=()) -> dict | None:
    for j, e in enumerate(pool):
        if j in skip:
            continue
        d = common.diff_snapshot(e["tree"], e["snap"])
        if d:
            return {"tag": "input_modified", "detail": f"tree {j}: {d}", "_j": j}
    return None


def shape_class(tree) -> str:
    n = len(tree)
    pid = np.asarray(tree.pid())
    deg = np.bincount(pid[pid >= 0], minlength=n) if n > 1 else np.zeros(1, dtype=int)
    return f"n{min(n, 9) if n < 9 else (n // 10) * 10}f{min(int((deg > 1).sum()), 5)}r{min(int(deg[0]), 3)}"


def execute(program: dict) -> dict:
    from swcgeom.core import cut_tree
    from swcgeom import transforms as T

    violation = None
    states = []
    steps = 0
    interesting = False
    applied = False
    with World() as world:
        pool = []
        for m in program["trees"]:
            t = common.build_tree(m, comments=["c0"], source="gen")
            pool.append({"tree": t, "snap": common.snapshot(t), "born": len(pool)})
        cache: dict = {}
        born = len(pool)
        if any(len(e["tree"]) >= 1000 for e in pool):
            world.probe("c03.tree_of_1000_nodes_or_more")
        for si, step in enumerate(program["steps"]):
            steps += 1
            kind = step["k"]
            if kind == "edit":
                ti = step["t"] % len(pool)
                tree = pool[ti]["tree"]
                i = step["node"] % len(tree)
                col, val = step["col"], step["val"]
                via = step["via"]
                if col == "extra":
                    # an extra per-node column if this tree carries one (written in the column itself), else x
                    ex = sorted(k for k in tree.ndata if k not in common.COLS)
                    col, via = (ex[val % len(ex)], "ndata") if ex else ("x", via)
                    if ex:
                        world.probe("c03.edit_of_an_extra_column")
                if col == "type":
                    val = abs(val) % 8  # SWC types are non-negative
                if via == "node":
                    setattr(tree.node(i), col, val)
                elif via == "getitem":
                    setattr(tree[i], col, val)
                else:
                    tree.ndata[col][i] = val
                got = tree.ndata[col][i]
                if float(got) != float(val):
                    violation = {"tag": "edit_lost", "op": "edit", "detail": f"wrote {val} to {col}[{i}], reads {got}"}
                    break
                pool[ti]["snap"] = common.snapshot(tree)
                v = check_untouched(pool, skip=(ti,))
                world.log(si, "edit", ti, i, col, v["tag"] if v else None)
                if v:
                    # the younger of the two trees was made by the operation that forgot to copy
                    j = v.pop("_j")
                    young = pool[ti] if pool[ti]["born"] > pool[j]["born"] else pool[j]
                    v["op"] = "edit_after:" + young.get("made_by", "initial")
                    v["detail"] += f" after editing tree {ti}"
                    violation = v
                    break
                if applied:
                    interesting = True
                continue
            if kind == "query":
                # a read-only question to a live tree (it may fill caches inside the tree): inputs stay untouched,
                # and whatever it left behind must not leak into later operations on this tree or its descendants
                ti = step["t"] % len(pool)
                tree = pool[ti]["tree"]
                what = step["what"]
                if pool[ti].get("relaxed") is not None and what not in ("length", "segments", "children", "is_tip"):
                    world.log(si, "query", "skipped: tree re-rooted without sorting")
                    continue
                i = step["node"] % len(tree)
                try:
                    if what == "branches":
                        out = len(tree.get_branches())
                    elif what == "paths":
                        out = len(tree.get_paths())
                    elif what == "tips":
                        out = len(tree.get_tips())
                    elif what == "furcations":
                        out = len(tree.get_furcations())
                    elif what == "length":
                        out = round(float(tree.length()), 3)
                    elif what == "traverse":
                        out = tree.traverse(leave=lambda nd, ch: 1 + sum(ch))
                    elif what == "children":
                        out = len(tree.node(i).children())
                    elif what == "segments":
                        out = len(tree.get_segments())
                    elif what == "node_subtree":
                        out = len(tree.node(i).subtree())
                    elif what == "is_tip":
                        out = bool(tree.node(i).is_tip())
                    else:
                        out = len(tree.get_neurites())
                except Exception as e:  # noqa: BLE001
                    out = f"raised {type(e).__name__}"  # queries are not C03's subject: only their after-effects are
                v = check_untouched(pool)
                world.log(si, "query", what, str(out), v["tag"] if v else None)
                if v:
                    v.pop("_j", None)
                    v["op"] = f"query:{what}"
                    violation = v
                    break
                continue
            if kind == "cancel":
                ti = step["t"] % len(pool)
                tree = pool[ti]["tree"]
                if pool[ti].get("relaxed"):
                    world.log(si, "cancel", "skipped: tree re-rooted without sorting")
                    continue
                at = step["at"]
                calls = [0]

                def tick():
                    calls[0] += 1
                    if calls[0] > at:
                        world.fired("callback_raised_mid_traversal")
                        raise CallbackCancelled(f"call {calls[0]}")

                op = step["op"]
                try:
                    if op == "cut_enter":
                        res = cut_tree(tree, enter=lambda nd, p: (tick(), False))
                    elif op == "cut_leave":
                        res = cut_tree(tree, leave=lambda nd, ch: (tick(), False))
                    elif op == "swc_rows":
                        # the SWC round trip abandoned half way: the public row generator is consumed for a few rows
                        # and dropped (closed explicitly every other time)
                        from swcgeom.core.swc_utils import to_swc as swc_rows

                        it = swc_rows(tree.get_ndata, id_offset=[1, 0, 5][at % 3])
                        for _ in range(at):
                            if next(it, None) is None:
                                break
                        if at % 2:
                            it.close()
                        del it
                        world.fired("callback_raised_mid_traversal")
                        raise CallbackCancelled("row generator dropped")
                    elif op == "swc_disk":
                        # ... or written to a disk that fails part-way
                        from simkit.world import StreamPlan

                        world.mkdir("out")
                        world.write_plans["out/aborted.swc"] = StreamPlan.from_json(
                            {"werr_at": [0, 1, 30, 64, 257, 1000][at % 6], "werrno": 28, "buffer_size": [1, 16, 64, 8192][at % 4]})
                        try:
                            tree.to_swc(world.path("out/aborted.swc"))
                        except OSError:
                            world.fired("callback_raised_mid_traversal")
                            raise CallbackCancelled("disk full") from None
                        res = None
                    elif op == "short_tip":
                        res = T.CutShortTipBranch(1e9, callback=lambda br: tick())(tree)
                    else:
                        res = tree.traverse(enter=lambda nd, p: tick())
                        res = None
                    outcome = "returned"
                except CallbackCancelled:
                    res, outcome = None, "cancelled"
                except Exception as e:  # noqa: BLE001
                    violation = {"tag": "raised", "op": f"cancel:{op}", "detail": f"{type(e).__name__}: {e}"[:300]}
                    break
                v = check_untouched(pool)
                if v is None and res is not None:
                    v = check_result(f"cancel:{op}", res, pool, step)
                world.log(si, "cancel", op, at, outcome, v["tag"] if v else None)
                if v:
                    v.pop("_j", None)
                    v["op"] = f"cancel:{op}"
                    violation = v
                    break
                if applied and outcome == "cancelled":
                    interesting = True
                continue
            # apply
            name, inputs, thunk = apply_op(step, pool, cache)
            try:
                res = thunk()
            except Exception as e:  # noqa: BLE001
                v = check_untouched(pool)
                world.log(si, "apply", name, "raised", type(e).__name__)
                if v is not None:
                    v.pop("_j", None)
                    v["op"] = name
                    violation = v
                else:
                    violation = {"tag": "raised", "op": f"{name}/{type(e).__name__}",
                                 "detail": f"{type(e).__name__}: {e}"[:300]}
                break
            world.take_warnings()
            if res is None:
                world.log(si, "apply", name, "inadmissible")
                continue
            v = check_untouched(pool) or check_result(name, res, pool, step)
            world.log(si, "apply", name, "ok", len(res) if v is None else v["tag"])
            if v:
                v.pop("_j", None)
                v["op"] = name
                violation = v
                break
            if not all(np.all(np.isfinite(np.asarray(res.ndata[k], dtype=np.float64))) for k in "xyzr"):
                # e.g. Normalizer on a tree whose coordinates are all zero: the result is a well-formed
                # tree, but non-finite geometry is not an admissible input for further operations
                world.log(si, "apply", name, "non-finite result not kept")
                continue
            applied = True
            born += 1
            entry = {"tree": res, "snap": common.snapshot(res), "made_by": name, "born": born}
            if name == "redirect_unsorted":
                entry["relaxed"] = True
            pool.append(entry)
            states.append(f"{name}|{shape_class(res)}|{len(pool)}")
            if len(pool) > 6:
                pool.pop(0)
        faults = dict(world.faults)
        probes = dict(world.probes)
        digest = world.digest()
    return {"violation": violation, "digest": digest, "steps": steps, "faults": faults, "probes": probes,
            "nontrivial": steps >= 3 and interesting, "config": program.get("config", "fault_free"), "states": states}


# ---------------------------------------------------------------------------


def _drop_leaf(program: dict, ti: int, i: int) -> dict | None:
    t = program["trees"][ti]
    n = len(t["pid"])
    if n <= 1 or i == 0 or i in t["pid"]:
        return None
    p = copy.deepcopy(program)
    for k in p["trees"][ti]:
        del p["trees"][ti][k][i]
    p["trees"][ti]["pid"] = [(q - 1 if q > i else q) for q in p["trees"][ti]["pid"]]
    return p


def shrink_candidates(program: dict):
    yield from shrink.drop_from_list(program, ["steps"], min_len=1)
    yield from shrink.drop_from_list(program, ["trees"], min_len=1)
    for ti, t in enumerate(program["trees"]):
        for i in range(len(t["pid"]) - 1, 0, -1):
            c = _drop_leaf(program, ti, i)
            if c is not None:
                yield c
    for si, s in enumerate(program["steps"]):
        for key in ("t", "t2", "n", "n1", "n2", "node", "at"):
            if key in s and isinstance(s[key], int) and s[key] != 0:
                yield shrink.with_value(program, ["steps", si, key], 0)
                yield from shrink.shrink_int_toward(program, ["steps", si, key], 0)
        if "rm" in s:
            yield from shrink.drop_from_list(program, ["steps", si, "rm"])
        if s.get("op") == "transform" and s["spec"]["op"] == "transforms":
            yield from shrink.drop_from_list(program, ["steps", si, "spec", "seq"], min_len=1)
            for sub in s["spec"]["seq"]:
                yield shrink.with_value(program, ["steps", si, "spec"], sub)
    for ti, t in enumerate(program["trees"]):
        for k in ("x", "y", "z"):
            if any(v != float(i) for i, v in enumerate(t[k])):
                yield shrink.with_value(program, ["trees", ti, k], [float(i) for i in range(len(t[k]))])
        if any(v != 1.0 for v in t["r"]):
            yield shrink.with_value(program, ["trees", ti, "r"], [1.0] * len(t["r"]))


FINDING_PREDICATES: dict = {}
