"""C01 - SWC write -> read round trip reproduces the tree.

System under simulation: writer (`Tree.to_swc`) and reader (`Tree.from_swc`) with the
disk and the stream stacks in between owned by the simulator.  A run builds a tree,
writes it (to a simulated file through a raw writer that accepts short writes, or to
a string), reads it back through path / StringIO / BytesIO / TextIOWrapper sources
under generated stream schedules, and optionally writes and reads the result a second
time (second generation).  Only benign faults are injected: every schedule must give
the identical, exact round trip.
"""

from __future__ import annotations

import copy
import io
import pathlib

import numpy as np

from models import tree_model
from props import common
from simkit import shrink
from simkit.prng import Prng
from simkit.world import StreamPlan, World

PROP = "C01"
LEVEL = "fault_enumeration"
TIERS = {"quick": 5000, "thorough": 150000}
LOCALE_VARIES = True  # three of the sixteen shards run in a non-UTF-8 locale (simkit/runner.py: hashseed_for)
RULE = (
    "one run = one generated well-formed tree (shapes: single node, chain, star, random, caterpillar, "
    "binary, stemmed; float32 coordinates from a pool stressing 4-decimal rounding; int32 types; 0-4 "
    "comments), 1-2 write->read generations with writer options (id_offset, source header, comments flag, "
    "path | string target, short raw writes) and 1-3 reads each (path | StringIO | BytesIO | TextIOWrapper) "
    "under a generated stream schedule. Distinct = distinct event-log digest; non-trivial = at least two "
    "nodes or one comment, and in faulting configurations at least one short read/write actually happened."
)
STATE_MEASURE = "distinct (generation, target, id_offset class, source kind, header, comments, schedule class) tuples"
COMPONENTS = {
    "real": ["swcgeom.core.swc.SWCLike.to_swc", "swcgeom.core.swc_utils.io (to_swc, parse_swc, read_swc)",
             "swcgeom.core.tree.Tree.from_swc", "swcgeom.utils.file.FileReader",
             "CPython io stack (BufferedReader/Writer, TextIOWrapper, codecs)", "tmpfs files under the SimDisk root"],
    "stub": [],
    "replaced_leaf_functions": ["builtins.open", "io.open"],
}
ASSUMPTIONS = [
    "expected coordinates are float32(Decimal(v).quantize(0.0001, ROUND_HALF_EVEN)), computed with 120-digit Decimal",
    "admissible comments: printable, no line break, not starting with the column-header text `id type x y z r pid`",
    "types in [0, 2**31), id_offset + n <= 2**31 - 1",
]

COMMENTS = ["", " ", "   ", "soma", " leading blank", "trailing blank  ", "# hash", "x y z", "1 1 0 0 0 1 -1",
            "CREATED-BY tool 1.2", "née à Zürich µm", "神经元 形态", "a#b", "\tTAB", "ORIGINAL_SOURCE Neurolucida",
            "scale 1.0 1.0 1.0", "-", "#",
            # characters that str.splitlines() treats as line ends but text files do not: they stay inside the line
            # look-alikes of the column-header line (only the exact lower-case, single-blank spelling is format metadata)
            "ID,Type,X,Y,Z,R,PID", "Id\tType\tX\tY\tZ\tR\tPid", "id  type  x  y  z  r  pid", "ID TYPE X Y Z R PID", "id;type;x;y;z;r;pid",
            "SCALE 1.0 1.0 1.0", "source: elsewhere.swc",
            "form\x0cfeed", "vt\x0btab", "nel\x85next", "ls\u2028sep", "ps\u2029sep", "fs\x1cgs\x1drs\x1eend"]
SOURCES = ["", "", "/data/neuron 1.swc", "nœud.swc", "Unknown"]


def gen_stream(rng: Prng) -> dict:
    if rng.chance(0.3):
        return {}
    d = {}
    if rng.chance(0.7):
        d["chunks"] = [rng.choice([1, 1, 2, 3, 5, 7, 17, 64, 4096]) for _ in range(rng.randint(1, 4))]
    if rng.chance(0.6):
        d["buffer_size"] = rng.choice([1, 2, 3, 7, 16, 61, 512, 8192])
    if rng.chance(0.6):
        d["text_chunk"] = rng.choice([1, 2, 5, 64, 8192])
    return d


def generate(rng: Prng, tier: str) -> dict:
    w = rng.stream("workload")
    sp = rng.stream("stream.chunk")
    faulting = rng.stream("config").chance(0.6)
    if tier == "thorough" and w.chance(0.01):
        n = w.randint(1000, 5000)
        shape = w.choice(["chain", "star", "random"])
    elif (dp := rng.stream("deep")).chance(0.004):
        # "deep chains, high-degree nodes" are in the quantifier: a few big trees in the quick tier too (a reader or
        # writer that recurses per node, or is quadratic in the row count, shows only beyond ~1000 nodes)
        n = dp.randint(1050, 2600) if dp.chance(0.7) else dp.randint(4097, 9000)
        shape = dp.choice(["chain", "chain", "star", "stemmed"])
    else:
        n = w.choice([1, 1, 2, 3, 4, 6, 9, 15, 25, 60])
        shape = None
    tree = tree_model.gen_tree(w, n, shape)
    un = rng.stream("numbering")
    if n > 2 and un.chance(0.2):
        # well-formed, but not numbered parent-before-child: the root stays node 0, the other positions are permuted
        perm = [0] + [1 + q for q in un.permutation(n - 1)]  # new position of old node i
        inv = [0] * n
        for o_, n_ in enumerate(perm):
            inv[n_] = o_
        t2 = {k: [tree[k][inv[j]] for j in range(n)] for k in tree}
        t2["pid"] = [(-1 if tree["pid"][inv[j]] == -1 else perm[tree["pid"][inv[j]]]) for j in range(n)]
        tree = t2
    comments = [w.choice(COMMENTS) + (f" k{i}" if w.chance(0.5) else "") for i in range(w.choice([0, 0, 1, 2, 3, 4]))]
    lc = rng.stream("long_comment")
    huge_header = False
    if lc.chance(0.04):
        # a header of tens of kilobytes made of multi-byte characters: wherever a reader cuts its input into blocks
        # (8192, 65536 bytes or characters, ...) the cut falls inside a character
        unit = lc.choice(["µ", "神经元", "é°", "a神", "𝛼β"])
        comments.insert(lc.below(len(comments) + 1), unit * (lc.choice([9000, 20000, 70000]) // len(unit.encode("utf-8")) + lc.below(7)))
        if lc.chance(0.15):
            # a header beyond one MiB: a reader that pulls its input in bulk with a size hint, or stops after some
            # amount, loses what follows
            comments[-1 if not comments else lc.below(len(comments))] = unit * (1_150_000 // len(unit))  # characters, not bytes
            huge_header = True
    nf = rng.stream("unicode_forms")
    if nf.chance(0.06):
        # text that is not in Unicode normal form C (a base letter + combining mark, the Angstrom / Ohm / Kelvin signs,
        # a CJK compatibility ideograph): "the same text" means the same code points
        comments.insert(nf.below(len(comments) + 1), nf.choice(["cafe\u0301 au lait", "10 \u212b resolution", "5 k\u2126 / 300 \u212a",
                                                                "\uf900 compat", "A\u030a ngstro\u0308m", "\u1e9b\u0323 long s"]))
    gens = []
    for g in range(w.weighted([(1, 6), (2, 4)])):
        offs = [0, 1, 1, 1, 2, 7, 10**6, 2**31 - 1 - n]
        write = {
            "id_offset": w.choice(offs),
            "source": w.choice([False, True, True, "custom source", "père/fichier.swc"]),
            "comments": w.chance(0.8),
            "target": w.choice(["path", "string"]),
        }
        if write["target"] == "path" and faulting:
            write["wstream"] = gen_stream(sp)
        reads = []
        for _ in range(w.weighted([(1, 4), (2, 3), (3, 2)])):
            reads.append({"source": w.choice(["path", "string", "bytes", "textwrapper"]),
                          "stream": gen_stream(sp) if faulting else {}})
        g_ = {"write": write, "reads": reads}
        rh = rng.stream(f"rewrite{g}")
        if rh.chance(0.3):
            # storage history: the written tree is edited in place and written AGAIN with the same arguments
            # (onto the same path, optionally with the file's modification time restored), then read back
            g_["rewrite"] = {"node": rh.below(64), "col": rh.choice(["x", "y", "z", "r"]),
                             "via": rh.choice(["node", "ndata", "copy"]), "keep_mtime": rh.chance(0.6),
                             "source": rh.choice(["path", "path", "string", "bytes"])}
        pf = rng.stream(f"pathform{g}")
        if pf.chance(0.2):
            # the same file under another spelling, used for the write and for every read of this generation
            g_["pathform"] = pf.choice(["dots", "symlink_dotdot", "symlink_dotdot"])
        ph = rng.stream(f"preamble{g}")
        for rd in reads:
            if ph.chance(0.15):
                rd["fix_roots"] = ph.choice(["somas", "nearest", False])  # root repair has nothing to repair on a tree
            if rd["source"] != "path" and ph.chance(0.2):
                # the caller hands in a stream it has already read a preamble from (position != 0)
                rd["preamble"] = ph.choice(["BUNDLE entry 1 of 1\n", "# bundle entry 1 of 1\n", "\x00\x01HDR", "7 lines\n",
                                            "1 1 0 0 0 1 -1\n", "né\n"])
        ah = rng.stream(f"aborted{g}")
        if ah.chance(0.25):
            g_["aborted"] = {"how": ah.choice(["disk", "disk", "generator"]), "at": ah.choice([0, 1, 30, 64, 100, 257, 1000]),
                             "errno": ah.choice([28, 5]), "buffer": ah.choice([1, 16, 64, 8192]),
                             "id_offset": ah.choice([0, 1, 1, 5, 1000])}
        fr = rng.stream(f"failed_read{g}")
        if fr.chance(0.15):
            # a read that FAILS part-way (a damaged copy of the text: junk after some good rows), issued right before
            # the judged reads: nothing is demanded of it, and nothing of it may reach the reads that follow
            g_["failed_read"] = {"after": fr.below(6), "junk": fr.choice(["oops not a row", "1 2 3", "7 3 1.0 x 0 1 1", "\x1a"]),
                                 "kind": fr.choice(["string", "bytes", "path"])}
        if huge_header:
            # cost bound: byte-sized chunks add nothing at this scale
            for rd in g_["reads"]:
                st = rd.get("stream") or {}
                if "chunks" in st:
                    st["chunks"] = [max(c, 997) for c in st["chunks"]]
                for k in ("buffer_size", "text_chunk"):
                    if k in st:
                        st[k] = max(st[k], 509)
            st = g_["write"].get("wstream") or {}
            if "chunks" in st:
                st["chunks"] = [max(c, 997) for c in st["chunks"]]
            for k in ("buffer_size", "text_chunk"):
                if k in st:
                    st[k] = max(st[k], 509)
        gens.append(g_)
    hist = rng.stream("history")
    return {"prop": PROP, "tree": tree, "comments": comments, "tsource": w.choice(SOURCES), "gens": gens,
            "bystander": hist.chance(0.3), "comments_none": hist.chance(0.5),
            "config": "faulting" if faulting else "fault_free"}


# ---------------------------------------------------------------------------


def expected_after(model: dict, comments: list[str], tsource: str, write: dict):
    n = tree_model.n_nodes(model)
    out = {
        "type": list(model["type"]),
        "pid": list(model["pid"]),
        "x": [tree_model.quantize4(v) for v in model["x"]],
        "y": [tree_model.quantize4(v) for v in model["y"]],
        "z": [tree_model.quantize4(v) for v in model["z"]],
        "r": [tree_model.quantize4(v) for v in model["r"]],
    }
    cs = []
    if write["source"] is not False:
        src = write["source"] if isinstance(write["source"], str) else (tsource if tsource else "Unknown")
        cs += [f"source: {src}", ""]
    if write["comments"]:
        cs += list(comments)
    return out, [c.lstrip() for c in cs], n


def compare(tree, exp: dict, exp_comments: list[str], n: int) -> dict | None:
    got_n = len(tree)
    if got_n != n:
        return {"tag": "node_count", "detail": f"{got_n} nodes read for {n} written"}
    ids = [int(v) for v in tree.id()]
    if ids != list(range(n)):
        return {"tag": "parent_mismatch", "detail": f"ids are not 0..n-1: {ids[:8]}"}
    pid = [int(v) for v in tree.pid()]
    if pid != exp["pid"]:
        i = next(i for i in range(n) if pid[i] != exp["pid"][i])
        return {"tag": "parent_mismatch", "detail": f"node {i}: parent {pid[i]} expected {exp['pid'][i]}"}
    typ = [int(v) for v in tree.type()]
    if typ != exp["type"]:
        return {"tag": "type_mismatch", "detail": f"{typ[:6]} expected {exp['type'][:6]}"}
    for k in "xyzr":
        got = np.asarray(tree.get_ndata(k))
        e = np.array(exp[k], dtype=np.float32)
        if got.dtype != np.float32:
            return {"tag": "coord_mismatch", "detail": f"column {k} has dtype {got.dtype}"}
        # the sign of zero is not carried by "rounded to four decimals": -0.0 == 0.0
        g0 = np.where(got == 0, np.float32(0), got)
        e0 = np.where(e == 0, np.float32(0), e)
        if not common.same_bits(g0, e0):
            i = next(i for i in range(n) if g0[i].tobytes() != e0[i].tobytes())
            return {"tag": "coord_mismatch", "detail": f"column {k} node {i}: got {got[i]!r} expected {e[i]!r}"}
    gc = [c.lstrip() for c in tree.comments]
    if gc != exp_comments:
        return {"tag": "comments_mismatch", "detail": f"got {gc[:8]} expected {exp_comments[:8]}"}
    return None


def open_stream(world, src_kind: str, text: str, data: bytes, plan, preamble):
    """A caller-supplied stream positioned at the start of the SWC text; with a preamble the stream holds other
    content first, which the caller has already consumed (the position handed in is not 0)."""
    pre = preamble or ""
    if src_kind == "string":
        src = world.string_source(pre + text)
        if pre:
            got = src.read(len(pre))
            assert got == pre
    elif src_kind == "bytes":
        pb = pre.encode("utf-8")
        src = world.bytes_source(pb + data, plan)
        if pb:
            got = io.BytesIO.read(src, len(pb))  # the caller's own read, not subject to the plan
            assert got == pb
    else:
        pb = pre.encode("utf-8")
        src = world.text_wrapper_source(pb + data, plan, "utf-8")
        if pre:
            got = src.read(len(pre))
            assert got == pre
    if pre:
        world.probe("c01.stream_handed_in_at_nonzero_position")
    return src


def rewrite_value(v: float) -> float:
    """A different value whose 4-decimal spelling has the same length: the last carried digit is rotated."""
    q = tree_model.quantize4(v)
    t = f"{q:.4f}"
    if len(t) > 12 or "e" in t or "n" in t:
        return 1.5 if q != 1.5 else 2.5
    t2 = t[:-1] + str((int(t[-1]) + 1) % 10)
    return float(np.float32(float(t2)))


def play_rewrite(world, Tree, tree, model, comments, tsource, wr, kwargs, rel, rw, gi):
    """write -> (read) -> edit the tree in place -> write again with the same arguments -> read: the second text
    must describe the edited tree (a writer that remembers its last output, or a reader that remembers a file by
    name/size/time, answers with the old one)."""
    import os

    n = tree_model.n_nodes(model)
    i = rw["node"] % n
    col = rw["col"]
    old = float(model[col][i])
    new = rewrite_value(old)
    model2 = copy.deepcopy(model)
    model2[col][i] = new
    target = tree
    if rw["via"] == "copy":
        target = tree.copy()
        target.ndata[col][i] = np.float32(new)
    elif rw["via"] == "node":
        setattr(target.node(i), col, np.float32(new))
    else:
        target.ndata[col][i] = np.float32(new)
    exp2, exp_comments2, n2 = expected_after(model2, comments, tsource, wr)
    try:
        if wr["target"] == "path":
            st = os.stat(world.path(rel))
            world.write_plans[rel] = StreamPlan.from_json(wr.get("wstream"))
            target.to_swc(world.path(rel), **kwargs)
            data2 = world.get(rel)
            text2 = data2.decode("utf-8")
            same_len = len(data2) == st.st_size
            if rw["keep_mtime"]:
                os.utime(world.path(rel), ns=(st.st_atime_ns, st.st_mtime_ns))
                if same_len:
                    world.fired("file_replaced_same_size_same_mtime")
        else:
            text2 = target.to_swc(**kwargs)
            data2 = text2.encode("utf-8")
            world.put(rel, data2)
    except Exception as e:  # noqa: BLE001
        return {"tag": "write_raised", "detail": f"second write: {type(e).__name__}: {e}"[:300]}
    src_kind = rw["source"] if wr["target"] == "path" or rw["source"] != "path" else "path"
    if src_kind == "path":
        world.read_plans[rel] = StreamPlan.from_json({})
        src = world.path(rel)
    else:
        src = open_stream(world, src_kind, text2, data2, StreamPlan.from_json({}), None)
    try:
        got = Tree.from_swc(src)
    except Exception as e:  # noqa: BLE001
        return {"tag": "read_raised", "detail": f"after rewrite: {type(e).__name__}: {e}"[:300]}
    world.take_warnings()
    v = compare(got, exp2, exp_comments2, n2)
    world.log(gi, "rewrite", rw["via"], col, src_kind, rw["keep_mtime"], v["tag"] if v else None)
    world.probe("c01.rewrite_after_edit")
    if v:
        v["detail"] = "after an in-place edit and a second write with the same arguments: " + v["detail"]
        return v
    if rw["via"] != "copy":
        # the edit stays part of the written tree: the reference model follows it
        model[col][i] = new
    return None


def execute(program: dict) -> dict:
    from swcgeom.core import Tree

    violation = None
    states = []
    steps = 0
    model = copy.deepcopy(program["tree"])
    comments = list(program["comments"])
    tsource = program["tsource"]
    with World() as world:
        bystander = None
        if program.get("bystander"):
            # a second, unrelated tree created without a comments argument and annotated in place: the
            # written tree's own comments (the reference model's) must be all that reaches the file
            bystander = common.build_tree(model, comments=None, source="")
        tree = common.build_tree(model, comments=None if (program.get("comments_none") and not comments) else comments,
                                 source=tsource)
        if bystander is not None:
            bystander.comments.append("bystander note, not a comment of the written tree")
            world.log("bystander_edit")
        text_so_far = ""
        if len(model["pid"]) >= 1000:
            world.probe("c01.tree_of_1000_nodes_or_more")
        for gi, gen in enumerate(program["gens"]):
            wr = gen["write"]
            ab = gen.get("aborted")
            if ab:
                # a write of the same tree that does not run to completion (disk error part-way, or a caller
                # who looks at the first rows of the public row generator and drops it) must leave the tree
                # as it was: the following complete write still has to round-trip to the reference model
                try:
                    if ab["how"] == "disk":
                        rel_ab = f"out/aborted{gi}.swc"
                        world.mkdir("out")
                        world.write_plans[rel_ab] = StreamPlan.from_json(
                            {"werr_at": ab["at"], "werrno": ab["errno"], "buffer_size": ab["buffer"]})
                        tree.to_swc(world.path(rel_ab), id_offset=ab["id_offset"])
                        outcome = "completed"
                    else:
                        from swcgeom.core.swc_utils import to_swc as rows

                        it = rows(tree.get_ndata, id_offset=ab["id_offset"])
                        for _ in range(ab["at"] % 7 + 1):
                            if next(it, None) is None:
                                break
                        it.close() if ab["at"] % 2 else None
                        del it
                        outcome = "abandoned"
                except OSError as e:
                    outcome = f"OSError:{e.errno}"
                except Exception as e:  # noqa: BLE001
                    outcome = type(e).__name__
                world.log(gi, "aborted_write", ab["how"], outcome)
            exp, exp_comments, n = expected_after(model, comments, tsource, wr)
            kwargs = {"id_offset": wr["id_offset"], "source": wr["source"], "comments": wr["comments"]}
            rel = f"out/g{gi}.swc"
            world.mkdir("out")
            try:
                if wr["target"] == "path":
                    if (gi + n + len(comments)) % 3 == 0:
                        # the target already exists and is LONGER than what is about to be written (an earlier
                        # export of a bigger tree): nothing of it may survive
                        old = "# older export\n" + "".join(f"{k + 1} 3 {k}.5 0 0 1 {k if k else -1}\n" for k in range(n + 40))
                        world.put(rel, old.encode("utf-8"))
                        world.fired("target_path_held_a_longer_file")
                    world.write_plans[rel] = StreamPlan.from_json(wr.get("wstream"))
                    # the path as a str or, in a third of the writes, as a pathlib.Path (any os.PathLike)
                    spelled = world.spelled(rel, gen.get("pathform", "plain"))
                    if gen.get("pathform"):
                        world.probe("c01.path_spelled_" + gen["pathform"])
                    target = spelled if (gi + len(text_so_far)) % 3 else pathlib.Path(spelled)
                    if (gi + n) % 5 == 0 and not gen.get("pathform"):
                        # a bare file name, relative to the current directory (no directory part at all)
                        import os as _os

                        cwd = _os.getcwd()
                        _os.chdir(_os.path.dirname(world.path(rel)))
                        try:
                            ret = tree.to_swc(_os.path.basename(rel), **kwargs)
                        finally:
                            _os.chdir(cwd)
                        world.probe("c01.bare_relative_file_name")
                    else:
                        ret = tree.to_swc(target, **kwargs)
                    data = world.get(rel)
                    if ret is not None:
                        violation = {"tag": "write_result", "detail": "to_swc(fname) returned a value"}
                    text = data.decode("utf-8")
                else:
                    text = tree.to_swc(**kwargs)
                    data = text.encode("utf-8")
                    world.put(rel, data)
            except Exception as e:  # noqa: BLE001
                violation = {"tag": "write_raised", "detail": f"{type(e).__name__}: {e}"[:300]}
            steps += 1
            world.log(gi, "write", wr["target"], wr["id_offset"], str(wr["source"]), wr["comments"],
                      None if violation else len(data))
            if violation:
                break
            first_tree = None
            first_bits = None
            fr = gen.get("failed_read")
            if fr:
                lines_ = text.splitlines(keepends=True)
                data_ix = [i for i, l in enumerate(lines_) if l.strip() and not l.lstrip().startswith("#")]
                at = data_ix[min(fr["after"], len(data_ix) - 1)] + 1 if data_ix else len(lines_)
                bad_text = "".join(lines_[:at]) + fr["junk"] + "\n" + "".join(lines_[at:])
                try:
                    if fr["kind"] == "string":
                        Tree.from_swc(io.StringIO(bad_text))
                    elif fr["kind"] == "bytes":
                        Tree.from_swc(io.BytesIO(bad_text.encode("utf-8")))
                    else:
                        world.put("out/damaged-copy.swc", bad_text.encode("utf-8"))
                        Tree.from_swc(world.path("out/damaged-copy.swc"))
                    fo = "accepted"
                except Exception as e:  # noqa: BLE001
                    fo = type(e).__name__
                world.take_warnings()
                world.log(gi, "failed_read_first", fr["kind"], fo)
                world.probe("c01.failed_read_right_before")
            for ri, rd in enumerate(gen["reads"]):
                plan = StreamPlan.from_json(rd.get("stream"))
                src_kind = rd["source"]
                if src_kind == "path":
                    world.read_plans[rel] = plan
                    spelled = world.spelled(rel, gen.get("pathform", "plain")) if wr["target"] == "path" else world.path(rel)
                    src = spelled if (gi + ri) % 3 else pathlib.Path(spelled)
                else:
                    src = open_stream(world, src_kind, text, data, plan, rd.get("preamble"))
                try:
                    got = Tree.from_swc(src, fix_roots=rd["fix_roots"]) if "fix_roots" in rd else Tree.from_swc(src)
                except Exception as e:  # noqa: BLE001
                    cause = e.__cause__
                    violation = {"tag": "read_raised",
                                 "detail": f"{type(e).__name__}: {e} / cause {type(cause).__name__}: {cause}"[:400]}
                    world.log(gi, "read", ri, src_kind, "raised", type(e).__name__)
                    break
                steps += 1
                world.take_warnings()
                v = compare(got, exp, exp_comments, n)
                bits = {k: np.asarray(got.get_ndata(k)).tobytes() for k in common.COLS}
                world.log(gi, "read", ri, src_kind, "ok", len(got), v["tag"] if v else None)
                states.append("|".join([str(gi), wr["target"], str(min(wr["id_offset"], 3)), src_kind,
                                        str(wr["source"] is not False), str(wr["comments"]),
                                        str(sorted(rd.get("stream", {}).keys()))]))
                if v:
                    violation = v
                    break
                if first_tree is None:
                    first_tree, first_bits = got, (bits, list(got.comments))
                elif (bits, list(got.comments)) != first_bits:
                    violation = {"tag": "schedule_dependence",
                                 "detail": f"read {ri} ({src_kind}) differs from read 0 of the same text"}
                    break
            rw = gen.get("rewrite")
            if rw and not violation:
                violation = play_rewrite(world, Tree, tree, model, comments, tsource, wr, kwargs, rel, rw, gi)
                steps += 1
            if violation:
                violation["gen"] = gi
                break
            # next generation continues from what the library returned
            tree = first_tree
            model = {k: exp[k] for k in exp}
            comments = list(exp_comments)
            tsource = tree.source
        faults = dict(world.faults)
        probes = dict(world.probes)
        digest = world.digest()
    if violation:
        violation["op"] = "roundtrip"
    n0 = tree_model.n_nodes(program["tree"])
    nontrivial = (n0 >= 2 or bool(program["comments"])) and (program.get("config") != "faulting" or bool(faults))
    return {"violation": violation, "digest": digest, "steps": steps, "faults": faults, "probes": probes,
            "nontrivial": nontrivial, "config": program.get("config", "fault_free"), "states": states}


# ---------------------------------------------------------------------------


def _drop_leaf(program: dict, i: int) -> dict | None:
    t = program["tree"]
    n = len(t["pid"])
    if n <= 1 or i == 0 or i in t["pid"]:
        return None
    p = copy.deepcopy(program)
    for k in p["tree"]:
        del p["tree"][k][i]
    p["tree"]["pid"] = [(q - 1 if q > i else q) for q in p["tree"]["pid"]]
    return p


def shrink_candidates(program: dict):
    yield from shrink.drop_from_list(program, ["gens"], min_len=1)
    for g in range(len(program["gens"])):
        yield from shrink.drop_from_list(program, ["gens", g, "reads"], min_len=1)
        if program["gens"][g].get("aborted"):
            q = copy.deepcopy(program)
            del q["gens"][g]["aborted"]
            yield q
    yield from shrink.drop_from_list(program, ["comments"])
    if program.get("bystander"):
        yield shrink.with_value(program, ["bystander"], False)
    n = len(program["tree"]["pid"])
    for i in range(n - 1, 0, -1):
        c = _drop_leaf(program, i)
        if c is not None:
            yield c
    for g, gen in enumerate(program["gens"]):
        w = gen["write"]
        if w.get("wstream"):
            yield shrink.with_value(program, ["gens", g, "write", "wstream"], {})
        if w["id_offset"] != 1:
            yield shrink.with_value(program, ["gens", g, "write", "id_offset"], 1)
        if w["source"] is not False:
            yield shrink.with_value(program, ["gens", g, "write", "source"], False)
        if w["target"] != "string":
            yield shrink.with_value(program, ["gens", g, "write", "target"], "string")
        for r, rd in enumerate(gen["reads"]):
            if rd.get("stream"):
                yield shrink.with_value(program, ["gens", g, "reads", r, "stream"], {})
            if rd["source"] != "string":
                yield shrink.with_value(program, ["gens", g, "reads", r, "source"], "string")
    if program["tsource"]:
        yield shrink.with_value(program, ["tsource"], "")
    for k in ("x", "y", "z", "r"):
        for i, v in enumerate(program["tree"][k]):
            if v != 1.0:
                yield shrink.with_value(program, ["tree", k, i], 1.0)
    for i, v in enumerate(program["tree"]["type"]):
        if v != 0:
            yield shrink.with_value(program, ["tree", "type", i], 0)
    for i, c in enumerate(program["comments"]):
        if len(c) > 1:
            yield shrink.with_value(program, ["comments", i], c[: len(c) // 2])


FINDING_PREDICATES: dict = {}
