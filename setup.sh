#!/bin/bash
# Offline setup: nothing to compile (pure Python). Verifies the interpreter, that swcgeom
# is the editable install of /repo, and that the simulator is deterministic on a small sample.
set -e
cd "$(dirname "$0")"
mkdir -p evidence replays
/venv/bin/python - <<'PY'
import os, swcgeom, numpy, pandas
p = os.path.realpath(swcgeom.__file__)
assert p.startswith("/repo/"), p
print("swcgeom from", p, "numpy", numpy.__version__, "pandas", pandas.__version__)
PY
props=$(ls props/c[0-9]*.py | sed 's#props/##; s#\.py##' | tr 'a-z' 'A-Z' | paste -sd, -)
/venv/bin/python selftest/determinism.py "$props" 48
echo "setup ok"
