#!/bin/bash
# verify_seed.sh <src-dir with patch.diff demo.py notes.md> <seed-id> <PROP> [<PROP>...]
# 1. in a scratch worktree of /repo HEAD (outside /repo and /verif): demo passes clean, patch applies,
#    full pytest suite passes with it, demo fails with it;  worktree removed afterwards.
# 2. applies the patch to /repo, runs the quick check(s), reverts /repo.
# 3. stores patch.diff, demo.py, notes.md, meta.json under /verif/seeded/<seed-id>/.
set -u
src="$(realpath "$1")"; sid="$2"; shift 2
props=("$@")
wt="/tmp/vs-$sid"
out="/verif/seeded/$sid"
# CHECK_REPO: where the patch is applied for the check runs. Default /repo itself (the registered way); a scratch
# worktree (with VERIF_REPO pointing at it) lets a first triage run while /repo is busy with another sensitivity run.
CHECK_REPO="${CHECK_REPO:-/repo}"
if ! git -C "$CHECK_REPO" diff --quiet; then echo "REPO DIRTY"; exit 3; fi
[ "$CHECK_REPO" != /repo ] && export VERIF_REPO="$CHECK_REPO"
git -C /repo worktree remove --force "$wt" 2>/dev/null
git -C /repo worktree add -q "$wt" HEAD || exit 3
cleanup() { git -C /repo worktree remove --force "$wt" 2>/dev/null; git -C "$CHECK_REPO" checkout -- . ; }
trap cleanup EXIT
run_demo() { (cd "$wt" && PYTHONPATH="$wt" timeout 300 /venv/bin/python "$src/demo.py" >/tmp/vs-demo.out 2>&1); }
run_demo; clean_rc=$?
git -C "$wt" apply "$src/patch.diff" || { echo "$sid: PATCH DOES NOT APPLY to HEAD"; exit 4; }
tests=$(cd "$wt" && PYTHONPATH="$wt" timeout 900 /venv/bin/python -m pytest -q -p no:cacheprovider --timeout=900 2>&1 | tail -1)
# the pinned suite has a rare random flake: one retry before a seed is judged to break it
echo "$tests" | grep -q "81 passed" || tests=$(cd "$wt" && PYTHONPATH="$wt" timeout 900 /venv/bin/python -m pytest -q -p no:cacheprovider --timeout=900 2>&1 | tail -1)
run_demo; mut_rc=$?
demo_tail=$(tail -3 /tmp/vs-demo.out | tr '\n' ' ' | cut -c1-300)
echo "$sid: demo clean rc=$clean_rc, mutated rc=$mut_rc; tests: $tests"
ok=1
[ "$clean_rc" = 0 ] || ok=0
[ "$mut_rc" != 0 ] || ok=0
echo "$tests" | grep -q "81 passed" || ok=0
git -C /repo worktree remove --force "$wt"
if [ $ok = 0 ]; then echo "$sid: NOT A VALID SEED (kept nothing)"; exit 5; fi
# --- run our checks against it
git -C "$CHECK_REPO" apply "$src/patch.diff" || { echo "apply to $CHECK_REPO failed"; exit 4; }
results="[]"
cd /verif
export VERIF_EVIDENCE_DIR=/dev/shm/verif-mutant-evidence VERIF_REPLAY_DIR=/dev/shm/verif-mutant-replays
for p in "${props[@]}"; do
  o=$(VERIF_MAX_SIGS=${VERIF_MAX_SIGS:-3} VERIF_SHRINK_BUDGET=${VERIF_SHRINK_BUDGET:-80} ./check "$p" --tier ${TIER:-quick} 2>&1); rc=$?
  nv=$(echo "$o" | grep -c '^VIOLATION')
  sigs=$(echo "$o" | grep 'signature=' | sed 's/.*signature=//' | tr '\n' ';')
  summ=$(echo "$o" | grep '^SUMMARY' | sed 's/.*runs=/runs=/')
  echo "   check $p: exit=$rc violations=$nv [$sigs] $summ"
  results=$(jq -c --arg p "$p" --argjson rc "$rc" --argjson nv "$nv" --arg sigs "$sigs" --arg tier "${TIER:-quick}" \
     '. + [{check:$p, tier:$tier, exit:$rc, violations:$nv, signatures:$sigs}]' <<<"$results")
done
git -C "$CHECK_REPO" checkout -- .
mkdir -p "$out"
cp "$src/patch.diff" "$src/demo.py" "$out/"
[ -f "$src/notes.md" ] && cp "$src/notes.md" "$out/"
jq -n --arg id "$sid" --arg prop "${props[0]}" --arg tests "$tests" --argjson clean "$clean_rc" --argjson mut "$mut_rc" \
   --arg demo "$demo_tail" --argjson results "$results" --arg head "$(git -C /repo rev-parse --short HEAD)" \
   '{seed:$id, breaks_property:$prop, repo_head:$head, verified:{demo_exit_clean:$clean, demo_exit_with_patch:$mut, pytest_with_patch:$tests, demo_output_with_patch:$demo}, ran:"tools/verify_seed.sh: scratch worktree under /tmp (removed), then git -C /repo apply / ./check <ID> --tier quick / git -C /repo checkout -- .", checks:$results}' > "$out/meta.json"
echo "$sid: stored in $out"
