#!/venv/bin/python
"""annotate_seeds.py <wave-name> <first-k> <last-k>: copy the `change:` / `needs:` lines of notes.md into meta.json,
record the author and keep the first-pass check results (meta["checks"] as stored by verify_seed.sh) under "first_pass"."""
import json, os, re, sys
wave, lo, hi = sys.argv[1], int(sys.argv[2]), int(sys.argv[3])
for p in "C01 C02 C03 C09 C13 C14 C15 C18 C19".split():
    for k in range(lo, hi + 1):
        d = f"/verif/seeded/{p}-agent-{k}"
        if not os.path.isdir(d):
            continue
        m = json.load(open(f"{d}/meta.json"))
        notes = open(f"{d}/notes.md").read() if os.path.exists(f"{d}/notes.md") else ""
        ch = re.search(r"^change:\s*(.*)$", notes, re.M)
        nd = re.search(r"^needs:\s*(.*)$", notes, re.M)
        m.setdefault("change", ch.group(1).strip() if ch else "?")
        m.setdefault("needs_to_manifest", nd.group(1).strip() if nd else "?")
        m.setdefault("author", f"independent sub-agent given only the property text and a scratch worktree ({wave} wave)")
        m.setdefault("first_pass", m["checks"])
        json.dump(m, open(f"{d}/meta.json", "w"), indent=1, ensure_ascii=False)
        print(p, k, "caught" if m["first_pass"][0]["exit"] == 1 else "MISSED", "|", m["change"][:100])
