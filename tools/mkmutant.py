#!/venv/bin/python
"""mkmutant.py <name> <file-relative-to-/repo> <old> <new>  -> /verif/mutants/<name>.patch

Creates a patch by exact string replacement in /repo, saves `git diff`, reverts /repo."""
import subprocess, sys
name, rel, old, new = sys.argv[1:5]
p = "/repo/" + rel
s = open(p).read()
assert s.count(old) == 1, f"{s.count(old)} occurrences"
open(p, "w").write(s.replace(old, new))
d = subprocess.run(["git", "-C", "/repo", "diff"], capture_output=True, text=True).stdout
subprocess.run(["git", "-C", "/repo", "checkout", "--", "."], check=True)
open(f"/verif/mutants/{name}.patch", "w").write(d)
print("wrote", name, len(d))
