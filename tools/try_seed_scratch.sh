#!/bin/bash
# try_seed_scratch.sh <seed-id> [<PROP>] : apply seeded/<id>/patch.diff to a scratch worktree (CHECK_REPO, default
# /tmp/clean-repo), run the quick check with VERIF_REPO pointing at it, revert. For triage while /repo is busy.
sid="$1"; p="${2:-$(jq -r .breaks_property /verif/seeded/$sid/meta.json)}"
R="${CHECK_REPO:-/tmp/clean-repo}"
cd /verif
git -C "$R" diff --quiet || { echo "SCRATCH REPO DIRTY"; exit 3; }
git -C "$R" apply /verif/seeded/$sid/patch.diff || { echo "APPLY FAILED"; exit 3; }
trap 'git -C "$R" checkout -- .' EXIT
o=$(VERIF_REPO="$R" VERIF_EVIDENCE_DIR=/dev/shm/verif-mutant-evidence VERIF_REPLAY_DIR=/dev/shm/verif-mutant-replays VERIF_MAX_SIGS=3 VERIF_SHRINK_BUDGET=60 ./check $p --tier quick 2>&1); rc=$?
echo "$sid $p exit=$rc $(echo "$o" | grep '^SUMMARY' | sed 's/.*violating_runs=/violating_runs=/') $(echo "$o" | grep 'signature=' | sed 's/.*signature=//' | tr '\n' ' ')"
[ -n "$SHOW" ] && echo "$o" | grep -B1 -A3 "HARNESS" | head -20
