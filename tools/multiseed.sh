#!/bin/bash
# quick tier of every property under several VERIF_SEEDs, evidence/replays to /dev/shm
cd /verif
for sd in "$@"; do
  for p in C01 C02 C03 C09 C13 C14 C15 C18 C19; do
    o=$(VERIF_SEED=$sd VERIF_EVIDENCE_DIR=/dev/shm/ms-ev VERIF_REPLAY_DIR=/dev/shm/ms-rp ./check $p --tier quick 2>&1 | grep -v "^WARNING"); rc=$?
    echo "seed=$sd $p $(echo "$o" | grep '^SUMMARY' | sed 's/.*violating_runs=/violating_runs=/') $(echo "$o" | grep -c '^VIOLATION') viol $(echo "$o" | grep 'signature=' | tr '\n' ' ')"
    echo "$o" | grep -i "harness\|exit 2\|Traceback" | head -3
  done
done
