#!/bin/bash
# try_mutant.sh <patch> <PROP> [<PROP>...] : apply patch to /repo, run quick checks, revert. Prints one line per prop.
patch="$(realpath "$1")"; shift
cd /verif
export VERIF_EVIDENCE_DIR=/dev/shm/verif-mutant-evidence VERIF_REPLAY_DIR=/dev/shm/verif-mutant-replays
if ! git -C /repo diff --quiet; then echo "REPO DIRTY"; exit 3; fi
git -C /repo apply "$patch" || { echo "APPLY FAILED $patch"; exit 3; }
trap 'git -C /repo checkout -- .' EXIT
for p in "$@"; do
  out=$(VERIF_MAX_SIGS=${VERIF_MAX_SIGS:-2} VERIF_SHRINK_BUDGET=${VERIF_SHRINK_BUDGET:-60} ./check "$p" --tier ${TIER:-quick} 2>&1); rc=$?
  echo "$(basename "$patch") $p exit=$rc $(echo "$out" | grep -c '^VIOLATION') violations; $(echo "$out" | grep '^SUMMARY' | sed 's/.*violating_runs=/violating_runs=/')"
  if [ -n "$SHOW" ]; then echo "$out" | grep -A1 '^VIOLATION\|HARNESS' | head -20; fi
done
