#!/venv/bin/python
"""mk_seed_table.py <first-k> <last-k> <results.md ...> -> markdown rows for DESIGN section 12 (agents first-k..last-k)"""
import json, re, sys, glob
lo, hi = int(sys.argv[1]), int(sys.argv[2])
sigs = {}
for f in sys.argv[3:]:
    for line in open(f):
        m = re.match(r"\| (C\d\d-agent-\d+) \| (C\d\d) \| (\d+) \| (\d+) violating runs: (.*) \|", line)
        if m:
            sigs[m.group(1)] = (m.group(2), m.group(3), m.group(4), m.group(5).strip())
HIST = json.load(open("/verif/seeded/history.json"))
for p in "C01 C02 C03 C09 C13 C14 C15 C18 C19".split():
    for k in range(lo, hi + 1):
        sid = f"{p}-agent-{k}"
        m = json.load(open(f"/verif/seeded/{sid}/meta.json"))
        fp = m.get("first_pass", m["checks"])
        caught_first = fp[0]["exit"] == 1
        chk, rc, vr, sg = sigs.get(sid, (p, "?", "?", "?"))
        hist = HIST.get(sid) or ("caught at first run" if caught_first else "missed -> ?")
        sg = ", ".join(sg.split()[:3])
        cut = lambda t: (t if len(t) <= 230 else t[:227].rsplit(" ", 1)[0] + " ...").replace("|", "/")
        print(f"| {sid} | {cut(m.get('change','?'))} | {cut(m.get('needs_to_manifest','?'))} | {chk}: {sg} | {hist} |")
