#!/venv/bin/python
"""Regenerate /verif/MANIFEST.json from the table below (keeps it valid at all times)."""

import json
import os
import sys

VERIF = os.path.dirname(os.path.dirname(os.path.abspath(__file__)))

NA = {
    "C04": "traverse is a deterministic pure function of (topology, start node, callbacks): no I/O, clock, randomness, shared state or schedule for a simulator to own; depth-independence is an input-size question, not a fault or interleaving.",
    "C05": "renumbering is a pure function of the table; nothing to schedule or fault (its while-reading form is exercised inside C02's sort_nodes configuration, without claiming C05).",
    "C06": "subtree extraction and pruning are pure functions of (tree, arguments); no seam. C03 runs them but checks only C03's oracle.",
    "C07": "re-rooting and concatenation are pure functions of their arguments; no seam.",
    "C08": "branch/path/tip/furcation decomposition is a pure function of the tree; no seam.",
    "C10": "morphometric features are pure functions of the tree (write-once cached_property only); the property does not quantify over histories, schedules or faults.",
    "C11": "a metamorphic relation over inputs; nothing to schedule or fault (the RNG-dependent volume clause is decided under C14).",
    "C12": "affine transforms are pure functions of (tree, parameters); no seam.",
    "C16": "resampling and smoothing are pure functions of (tree/branch, parameters); no seam.",
    "C17": "deterministic greedy construction, a pure function of the points and parameters; no seam.",
    "C20": "rasterisation is a pure function evaluated in native code; save/load hands whole arrays to tifffile/pynrrd/numpy in one call, the repository has no stream handling of its own there and the property states nothing about faults.",
}

CHECKS = {
    "C01": dict(
        category="fault_enumeration", design_ref="DESIGN.md section 6 (C01)",
        technique="deterministic simulation: seeded write->read histories over a simulated disk and stream stack (short reads/writes, tiny buffers, split multi-byte characters), storage histories (aborted writes, in-place edit + rewrite onto the same path with the modification time restored, streams handed in at a non-zero position), Decimal reference oracle, ddmin-minimised replay files; a read that fails part-way right before the judged reads; other spellings of the target path (symlinked directory + `..`); numberings that are not parent-first; non-NFC comments; headers beyond one MiB",
        text="Seeded search over trees x writer options x source kinds x stream schedules; every benign stream fault must leave the round trip exact. Sampling, not proof: a clean batch is evidence only.",
        note="Trusts CPython's io stack, the Decimal-based rounding oracle and the tree generator's notion of well-formed (ids 0..n-1, node 0 the root, numbering parent-first or not, float32 finite values, int32 types).",
    ),
    "C02": dict(
        category="fault_enumeration", design_ref="DESIGN.md section 6 (C02)",
        technique="deterministic simulation with fault injection: seeded SWC texts + storage faults (bad token, dropped fields, line dup/del/swap/glue, truncation, byte flip, undecodable byte) + stream faults (EIO at an offset, short reads, tiny buffers/chunks) line ends aligned to power-of-two block boundaries, against an independent line recogniser; ddmin shrinking; fresh-interpreter replay; MiB-sized texts; encoding='detect' on pure-ASCII bytes; extra_cols as one-shot iterables; conditional oracle for tokens only Python calls numeric",
        text="Every run stores a generated text, damages it, and reads it 1-3 times through path/BytesIO/TextIOWrapper/StringIO sources under a generated stream schedule; verdicts are three-valued (MUST_ACCEPT / MUST_REJECT / EITHER) so only what the statement demands is enforced. Sampling over seeds, not exhaustive.",
        note="Trusts models/swc_text.py as the statement of the line grammar, Python's float() for the numeric value of a strictly-spelled token, and CPython's io/codecs stack.",
    ),
    "C03": dict(
        category="exploration", design_ref="DESIGN.md section 6 (C03)",
        technique="deterministic simulation of operation histories: seeded pipelines of tree->tree operations over a pool of live trees with bit-exact snapshots, np.shares_memory aliasing sweep, edit and read-only query steps between operations, callbacks that raise mid-traversal (cancellation fault); abandoned SWC writes among the cancellation faults; extra per-node columns; trees of 1100-7000 nodes",
        text="After every step: result well-formed, every other live tree bit-identical to its snapshot, no storage shared (extra per-node columns included). Seeded sampling of programs <= 14 steps on trees <= 40 nodes, plus one run in fifty on a tree of 1100-7000 nodes.",
        note="Admissible arguments are computed on the model side; Identity/empty Transforms are excluded (documented to return their argument).",
    ),
    "C09": dict(
        category="exploration", design_ref="DESIGN.md section 6 (C09)",
        technique="deterministic simulation of read/write/copy/detach histories on trees and their views against a list-of-dicts mirror model, checked after every step (incl. pid writes, strided/extra columns, caller edits of returned containers); node handles of views kept alive; columns filled in by the constructor; owners built by cat_tree / get_subtree",
        text="Every live handle must read what the mirror says after every step; writes through Tree.Node handles must be visible everywhere on the owner and nowhere on copies/detached objects. No fault kinds exist for in-memory views: pure history exploration.",
        note="Writes are issued only through node handles obtained from a tree, as the statement says.",
    ),
    "C13": dict(
        category="exploration", design_ref="DESIGN.md section 6 (C13)",
        technique="deterministic simulation of the hidden RNG seam: each configuration evaluated under several seeded and injected np.random.rand schedules (parallel / near-parallel draws forcing the redraw loop), compared with an exact 1-D integration reference and across schedules; follow-up configurations in the same process under a simulated identity allocator (id() reuse decided by the simulator); a sampled estimate asked before the plain call; one sphere object met by two frusta; radius ratios up to 1e4; integer lengths beyond 2**21",
        text="The sphere-frustum closed form reads the process-global RNG; results must agree with the reference and with each other under every schedule. Seeded sampling of configurations.",
        note="Reference: volume of a body of revolution integrated piecewise exactly; relative tolerance 1e-6 (float64) .",
    ),
    "C14": dict(
        category="exploration", design_ref="DESIGN.md section 6 (C14)",
        technique="deterministic simulation of the RNG seams under get_volume (global np.random state reseeded / draws injected per schedule) on seeded collinear trees against an exact union-of-revolution reference; session histories (radius edits, shared extractor and spec objects, a failing call in between, follow-up trees along mirrored directions); caller's logging at DEBUG; nearly equal and zero neighbouring radii; arms of a thousand nodes and more at levels 1 and 2",
        text="Levels 1 and 2 compared with exact sums on arbitrary trees; levels >= 3 compared with the exact union volume on collinear trees, under several RNG schedules which must agree.",
        note="float32 geometry inside the library: relative tolerance 1e-4; Monte-Carlo branch (branching root at level >= 5) compared at 3 sigma-equivalent 5% tolerance only.",
    ),
    "C15": dict(
        category="fault_enumeration", design_ref="DESIGN.md section 6 (C15)",
        technique="deterministic simulation with fault injection: generated ASC documents, every truncation offset / sampled single-point corruptions / EIO mid-read, read through the simulated stream stack; file replaced in place with its modification time restored, earlier results re-checked after later conversions; independent recogniser as oracle; ddmin shrinking; a second conversion cutting in at the k-th read of the first one's stream (interleaving at the I/O seam decided by the simulator); splits with a thousand alternatives",
        text="MUST_ACCEPT documents must convert to exactly the expected node table; truncated or corrupted documents the recogniser rejects must raise; decorated and bare documents must agree.",
        note="Trusts models/asc_model.py as the statement of the supported grammar; documents outside it are judged EITHER.",
    ),
    "C18": dict(
        category="exploration", design_ref="DESIGN.md section 6 (C18)",
        technique="deterministic simulation of union/find histories and parent-table edit histories against brute-force models under a deterministic step budget (hang = replayable event), one DataFrame edited in place between diagnoses, plus one multi-root file read repeatedly through the simulated disk under generated sequences of repair modes; rows listed before the first root; ids beyond 2**53; ask-then-unite DSU idiom with the oracle's own queries asked of a copy",
        text="DSU answers vs naive partition after every step; the four checkers vs brute force after every table edit (forests, cycles, self loops) within a line-event budget; root repair modes through real files.",
        note="Step budget is >= 100x what the largest generated input needs.",
    ),
    "C19": dict(
        category="fault_enumeration", design_ref="DESIGN.md section 6 (C19)",
        technique="deterministic simulation with fault injection: directory layouts on a simulated disk with permuted listings, per-file open ledger, files deleted/corrupted after listing, EIO in lazy reads, PYTHONHASHSEED varied per shard, and a seeded stub process pool deciding completion order whose tasks run in a worker process forked at the pool's first task (stale images of long-lived pools show); histories that reuse one PopulationTransform object and sweep a parameter across map calls",
        text="Access histories (index, slice, iterate, chain, map) checked against list arithmetic and an open-count ledger after every step.",
        note="The process pool is a stub (SimPool) honouring the concurrent.futures.Executor contract; real ProcessPoolExecutor scheduling cannot be decided from a seed. One forked worker per pool stands for its workers.",
    ),
}


def main() -> int:
    built = [p for p in sorted(CHECKS) if os.path.exists(os.path.join(VERIF, "props", p.lower() + ".py"))]
    checks = []
    for p in built:
        c = CHECKS[p]
        checks.append({
            "property_id": p,
            "quick_cmd": f"./check {p} --tier quick",
            "thorough_cmd": f"./check {p} --tier thorough",
            "evidence_file": f"/verif/evidence/{p}.json",
            "replay_cmd_template": f"./check {p} --replay {{path}}",
            "engine": "simkit",
            "level_claimed": {"category": c["category"], "text": c["text"], "design_ref": c["design_ref"]},
            "level_note": c["note"],
            "technique": c["technique"],
        })
    na = [{"property_id": p, "reason": r} for p, r in sorted(NA.items())]
    for p in sorted(CHECKS):
        if p not in built:
            na.append({"property_id": p, "reason": "applicable (see DESIGN.md section 6) but its check is not built yet; not claimed until it is"})
    manifest = {
        "version": 1,
        "setup_cmd": "./setup.sh",
        "hooks": {
            "guard": "SWCGEOM_VERIF",
            "enable": "no source hooks: every seam (builtins.open/io.open, os.scandir/os.listdir, numpy.random.rand, "
                      "concurrent.futures.ProcessPoolExecutor) is interposed from the check process at run time; "
                      "/repo is imported as the editable install, so checks always run the current working tree",
            "baseline_off_cmd": "cd /repo && /venv/bin/python -m pytest -ra -q -p no:cacheprovider --timeout=900 --continue-on-collection-errors",
            "source_commits": [],
            "add_only": True,
        },
        "engines": [{
            "name": "simkit",
            "path": "/verif/simkit",
            "serves_properties": built,
            "kind_free_text": "deterministic simulation with fault injection: SplitMix64-seeded generators of concrete JSON programs "
                              "(operations + stream schedules + fault plans), executed against the real library inside a World that "
                              "interposes the disk, stream stack, directory listing, RNG, process pool and object identities (id() reuse); "
                              "every run in a forked child of a warmed-up worker, a fifth of them after a prelude program in the same "
                              "process; step-wise oracles against reference models; ddmin shrinking; fresh-interpreter replay",
        }],
        "checks": checks,
        "not_applicable": sorted(na, key=lambda e: e["property_id"]),
        "notes": "Exit 0 = held on everything explored (KNOWN-FINDING lines allowed), 1 = VIOLATION line(s), 2 = harness failure. "
                 "VERIF_SEED selects the batch; run counts per tier are fixed. See DESIGN.md.",
    }
    with open(os.path.join(VERIF, "MANIFEST.json"), "w") as f:
        json.dump(manifest, f, indent=1)
        f.write("\n")
    print("claimed:", built)
    return 0


if __name__ == "__main__":
    sys.exit(main())
