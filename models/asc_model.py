"""Reference model of the supported single-tree Neurolucida ASC subset.

Imports nothing from swcgeom.  Two halves:

* a document *builder*: structure (nested dict) -> token list -> text, with the expected
  node table computed from the structure by the rule in the property statement;
* an independent strict *recogniser*: text -> node table, or Reject(kind) with kind in
  {"eof", "point", "other"}.  It is applied to generated documents (self-check of the
  builder) and to their truncations (is the prefix still a complete document?).

Grammar (tokens: "(", ")", "|", NUMBER, WORD, COMMENT = ';' to end of line):

    doc    := "(" color* "(" LABEL ")" body ")"            LABEL in axon|dendrite, any case
    body   := (item)* [split]                              at least one point before a split
    item   := point | color | COMMENT
    point  := "(" NUMBER NUMBER NUMBER NUMBER ")"
    color  := "(" "Color" WORD ")"
    split  := "(" alt ("|" alt)* ")"
    alt    := body                                          (may be empty)
"""

from __future__ import annotations

import re
import struct

NUMBER = re.compile(r"[-+]?(?:[0-9]+\.?[0-9]*|\.[0-9]+)(?:[eE][-+]?[0-9]+)?\Z")
WS = " \t\n"
TYPE_OF = {"AXON": 2, "DENDRITE": 3}


def f32(v: float) -> float:
    return struct.unpack("f", struct.pack("f", v))[0]


class Reject(Exception):
    def __init__(self, kind: str, why: str):
        super().__init__(why)
        self.kind = kind


# ---------------------------------------------------------------------------
# builder


def expected_table(doc: dict) -> dict:
    """Node table by the statement's rule: document order, parent = preceding point of the
    branch, or the last point before the enclosing split for the first point of an alternative."""
    rows = {"type": [], "x": [], "y": [], "z": [], "r": [], "pid": []}
    typ = TYPE_OF[doc["label"].upper()]

    # iterative walk (documents may hold thousands of points on one path)
    stack = [("body", doc["body"], -1)]
    while stack:
        kind, node, parent = stack.pop()
        if kind == "body":
            last = parent
            for pt in node["points"]:
                x, y, z, r = (f32(float(w)) for w in pt)
                rows["type"].append(typ)
                rows["x"].append(x)
                rows["y"].append(y)
                rows["z"].append(z)
                rows["r"].append(r)
                rows["pid"].append(last)
                last = len(rows["pid"]) - 1
            if node.get("split") is not None:
                # alternatives must be numbered in document order: process them one after another
                stack.append(("alts", (node["split"], 0), last))
        else:
            alts, k = node
            if k < len(alts):
                stack.append(("alts", (alts, k + 1), parent))
                if alts[k] is not None:
                    stack.append(("body", alts[k], parent))
    return rows


def count_points(body: dict | None) -> int:
    if body is None:
        return 0
    n = len(body["points"])
    for a in body.get("split") or []:
        n += count_points(a)
    return n


def tokens_of(doc: dict) -> list[tuple[str, str]]:
    """Flat token list [(role, text)].  Roles: open, close, bar, label, num, color, comment,
    popen/pclose (brackets of a point), with point numbers tagged num0..num3."""
    out: list[tuple[str, str]] = [("open", "(")]
    for c in doc.get("pre_colors", []):
        out += [("open", "("), ("word", "Color"), ("word", c), ("close", ")")]
    out += [("open", "("), ("label", doc["label"]), ("close", ")")]

    def deco(d):
        for kind, val in d or []:
            if kind == "color":
                out.extend([("open", "("), ("word", "Color"), ("word", val), ("close", ")")])
            else:
                out.append(("comment", ";" + val))

    # iterative emission
    stack: list = [("body", doc["body"])]
    while stack:
        item = stack.pop()
        if item[0] == "tok":
            out.append(item[1])
        elif item[0] == "deco":
            deco(item[1])
        elif item[0] == "body":
            body = item[1]
            if body is None:
                continue
            todo = []
            decos = body.get("deco", {})
            for i, pt in enumerate(body["points"]):
                todo.append(("deco", decos.get(str(i))))
                todo.append(("tok", ("popen", "(")))
                for j, w in enumerate(pt):
                    todo.append(("tok", (f"num{j}", w)))
                todo.append(("tok", ("pclose", ")")))
            todo.append(("deco", decos.get("end")))
            if body.get("split") is not None:
                todo.append(("tok", ("sopen", "(")))
                for k, alt in enumerate(body["split"]):
                    if k:
                        todo.append(("tok", ("bar", "|")))
                    todo.append(("body", alt))
                todo.append(("tok", ("sclose", ")")))
                todo.append(("deco", decos.get("tail")))  # annotations after the split's closing bracket
            stack.extend(reversed(todo))
    out.append(("close", ")"))
    return out


def render(tokens: list[tuple[str, str]], seps: list[str]) -> tuple[str, list[tuple[int, int]]]:
    """Join tokens with separators (cycled).  Numbers/words get at least one blank between them;
    a comment is always followed by a newline.  Returns (text, [(start, end) per token])."""
    parts: list[str] = []
    spans = []
    pos = 0
    prev_role = None
    for i, (role, text) in enumerate(tokens):
        sep = seps[i % len(seps)] if seps else " "
        if prev_role == "comment" and "\n" not in sep:
            sep = "\n" + sep
        wordish = lambda r: r is not None and (r.startswith("num") or r in ("word", "label"))  # noqa: E731
        if wordish(prev_role) and wordish(role) and sep == "":
            sep = " "
        if i == 0:
            sep = sep if sep.strip() == "" else ""
        parts.append(sep)
        pos += len(sep)
        spans.append((pos, pos + len(text)))
        parts.append(text)
        pos += len(text)
        prev_role = role
    tail = "\n" if prev_role != "comment" else "\n"
    parts.append(tail)
    return "".join(parts), spans


# ---------------------------------------------------------------------------
# recogniser


def lex(text: str) -> list[tuple[str, str]]:
    toks = []
    i, n = 0, len(text)
    while i < n:
        c = text[i]
        if c in WS:
            i += 1
        elif c in "()|":
            toks.append((c, c))
            i += 1
        elif c == ";":
            j = text.find("\n", i)
            j = n if j == -1 else j
            toks.append(("comment", text[i:j]))
            i = j
        else:
            j = i
            while j < n and text[j] not in WS + "();|":
                j += 1
            w = text[i:j]
            toks.append(("num" if NUMBER.match(w) else "word", w))
            i = j
    return toks


def recognise(text: str) -> dict:
    """-> expected node table of a well-formed document, else raise Reject."""
    toks = lex(text)
    pos = 0

    def peek():
        return toks[pos] if pos < len(toks) else None

    def take(kind=None, where="other"):
        nonlocal pos
        t = peek()
        if t is None:
            raise Reject("eof", "document ends prematurely")
        if kind is not None and t[0] != kind:
            raise Reject(where, f"expected {kind!r}, found {t[1]!r}")
        pos += 1
        return t

    take("(")
    typ = None
    while True:
        take("(")
        w = take("word")
        if w[1].upper() == "COLOR":
            take("word")
            take(")")
            continue
        if w[1].upper() not in TYPE_OF:
            raise Reject("other", f"unknown block {w[1]!r}")
        typ = TYPE_OF[w[1].upper()]
        take(")")
        break

    rows = {"type": [], "x": [], "y": [], "z": [], "r": [], "pid": []}
    # explicit stack of open splits: each entry = parent node of the split's alternatives
    split_parent: list[int] = []
    last = -1  # last point of the current branch
    seen_point_in_branch = False
    while True:
        t = peek()
        if t is None:
            raise Reject("eof", "document ends prematurely")
        if t[0] == "comment":
            pos += 1
        elif t[0] == "(":
            pos += 1
            u = peek()
            if u is None:
                raise Reject("eof", "document ends prematurely")
            if u[0] == "num":
                vals = []
                for _ in range(4):
                    v = take("num", "point")
                    vals.append(f32(float(v[1])))
                take(")", "point")
                rows["type"].append(typ)
                for k, v in zip("xyzr", vals):
                    rows[k].append(v)
                rows["pid"].append(last)
                last = len(rows["pid"]) - 1
                seen_point_in_branch = True
            elif u[0] == "word" and u[1].upper() == "COLOR":
                pos += 1
                take("word")
                take(")")
            elif u[0] == "word":
                raise Reject("point", f"{u[1]!r} where a point or Color was expected")
            else:
                # a split opens here
                if not seen_point_in_branch and not split_parent and last == -1:
                    raise Reject("other", "split before the first point")
                split_parent.append(last)
                seen_point_in_branch = False
        elif t[0] == "|":
            if not split_parent:
                raise Reject("other", "'|' outside a split")
            pos += 1
            last = split_parent[-1]
            seen_point_in_branch = False
        elif t[0] == ")":
            pos += 1
            if split_parent:
                last = split_parent.pop()
                # after a split closes the branch is over: only closers may follow
                seen_point_in_branch = True
            else:
                break
        else:
            raise Reject("point" if t[0] == "num" else "other", f"unexpected {t[1]!r}")
    if pos != len(toks):
        raise Reject("other", "content after the end of the document")
    if not rows["pid"]:
        raise Reject("other", "no point")
    return rows
