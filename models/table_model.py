"""Brute-force reference answers about arbitrary parent tables and a naive partition.

A table is a list `pid` over ids 0..n-1; pid[i] is -1 (no parent) or any id, so forests,
cycles and self-loops are all representable.  Imports nothing from swcgeom.
"""

from __future__ import annotations


def components(pid: list[int]) -> list[int]:
    """Label of the weakly-connected component of every node (label = smallest member)."""
    n = len(pid)
    adj = [[] for _ in range(n)]
    for i, p in enumerate(pid):
        if p != -1 and p != i:
            adj[i].append(p)
            adj[p].append(i)
    lab = [-1] * n
    for s in range(n):
        if lab[s] != -1:
            continue
        lab[s] = s
        todo = [s]
        while todo:
            u = todo.pop()
            for v in adj[u]:
                if lab[v] == -1:
                    lab[v] = s
                    todo.append(v)
    return lab


def connected(pid: list[int]) -> bool:
    return len(set(components(pid))) == 1


def has_cycle(pid: list[int]) -> bool:
    """Following parent pointers from some node never reaches a parentless node."""
    n = len(pid)
    for s in range(n):
        cur, hops = s, 0
        while cur != -1 and hops <= n:
            cur = pid[cur]
            hops += 1
        if cur != -1:
            return True
    return False


def parents_precede_children(pid: list[int]) -> bool:
    return all(p == -1 or p < i for i, p in enumerate(pid))


def child_counts(pid: list[int]) -> list[int]:
    c = [0] * len(pid)
    for p in pid:
        if p != -1:
            c[p] += 1
    return c


def at_most_two_children(pid: list[int], exclude_root: bool) -> bool:
    c = child_counts(pid)
    for i, k in enumerate(c):
        if k > 2 and not (exclude_root and pid[i] == -1):
            return False
    return True


class Partition:
    """Naive partition: every element carries the label of its block."""

    def __init__(self, n: int):
        self.label = list(range(n))

    def union(self, a: int, b: int) -> None:
        la, lb = self.label[a], self.label[b]
        if la != lb:
            self.label = [la if x == lb else x for x in self.label]

    def same(self, a: int, b: int) -> bool:
        return self.label[a] == self.label[b]

    def blocks(self) -> list[list[int]]:
        d: dict[int, list[int]] = {}
        for i, x in enumerate(self.label):
            d.setdefault(x, []).append(i)
        return sorted(d.values())
