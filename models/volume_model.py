"""Exact volumes of coaxial bodies of revolution (reference for C13 / C14).

Every solid that occurs in the two properties - a sphere, a spherical cap, a frustum, and
their unions / intersections when all centres lie on one line - is a body of revolution
about that line.  With s the coordinate along the axis, a solid is described by the square
of its radius profile, which is a quadratic in s on an interval and zero outside:

    sphere  (centre c, radius r):  rho2(s) = r^2 - (s - c)^2            on [c - r, c + r]
    frustum (s0, r0) -> (s1, r1):  rho2(s) = (r0 + (r1 - r0)(s - s0)/(s1 - s0))^2  on [s0, s1]

    V(union)        = pi * Integral max_k rho2_k(s) ds
    V(intersection) = pi * Integral min_k rho2_k(s) ds   over the common interval

The integrand is piecewise quadratic; break points are the interval ends and the roots of
rho2_a = rho2_b for every pair, so Simpson's rule on every piece is exact.  Pure Python
floats (float64), no NumPy, nothing imported from swcgeom.
"""

from __future__ import annotations

import math

Profile = tuple[float, float, float, float, float]  # (lo, hi, a, b, c): rho2 = a s^2 + b s + c on [lo, hi]


def sphere(c: float, r: float) -> Profile:
    # r^2 - (s-c)^2 = -s^2 + 2c s + r^2 - c^2
    return (c - r, c + r, -1.0, 2.0 * c, r * r - c * c)


def frustum(s0: float, r0: float, s1: float, r1: float) -> Profile:
    if s1 < s0:
        s0, r0, s1, r1 = s1, r1, s0, r0
    h = s1 - s0
    if h <= 0.0:
        return (s0, s0, 0.0, 0.0, 0.0)
    k = (r1 - r0) / h  # radius = r0 + k (s - s0) = k s + (r0 - k s0)
    m = r0 - k * s0
    return (s0, s1, k * k, 2.0 * k * m, m * m)


def _val(p: Profile, s: float) -> float:
    lo, hi, a, b, c = p
    if s < lo or s > hi:
        return 0.0
    return max(0.0, a * s * s + b * s + c)


def _crossings(p: Profile, q: Profile) -> list[float]:
    a, b, c = p[2] - q[2], p[3] - q[3], p[4] - q[4]
    if abs(a) < 1e-300:
        if abs(b) < 1e-300:
            return []
        return [-c / b]
    disc = b * b - 4.0 * a * c
    if disc < 0.0:
        return []
    sq = math.sqrt(disc)
    return [(-b - sq) / (2.0 * a), (-b + sq) / (2.0 * a)]


def _integrate(profiles: list[Profile], lo: float, hi: float, pick) -> float:
    pts = {lo, hi}
    for p in profiles:
        for e in (p[0], p[1]):
            if lo < e < hi:
                pts.add(e)
    for i in range(len(profiles)):
        for j in range(i + 1, len(profiles)):
            for s in _crossings(profiles[i], profiles[j]):
                if lo < s < hi:
                    pts.add(s)
    xs = sorted(pts)
    total = 0.0
    for u, v in zip(xs, xs[1:]):
        if v <= u:
            continue
        mid = 0.5 * (u + v)
        # the extremal profile does not change inside a piece: choose it at the midpoint
        vals = [(_val(p, mid), k) for k, p in enumerate(profiles)]
        k = pick(vals)
        if k is None:
            continue
        p = profiles[k]
        f = lambda s: max(0.0, p[2] * s * s + p[3] * s + p[4]) if p[0] <= s <= p[1] else 0.0  # noqa: E731
        total += (v - u) / 6.0 * (f(u) + 4.0 * f(mid) + f(v))
    return math.pi * total


def union_volume(profiles: list[Profile]) -> float:
    profiles = [p for p in profiles if p[1] > p[0]]
    if not profiles:
        return 0.0
    lo = min(p[0] for p in profiles)
    hi = max(p[1] for p in profiles)

    def pick(vals):
        best = max(vals)
        return best[1] if best[0] > 0.0 else None

    return _integrate(profiles, lo, hi, pick)


def intersection_volume(profiles: list[Profile]) -> float:
    if any(p[1] <= p[0] for p in profiles):
        return 0.0
    lo = max(p[0] for p in profiles)
    hi = min(p[1] for p in profiles)
    if hi <= lo:
        return 0.0

    def pick(vals):
        worst = min(vals)
        return worst[1] if worst[0] > 0.0 else None

    return _integrate(profiles, lo, hi, pick)


def sphere_volume(r: float) -> float:
    return union_volume([sphere(0.0, r)])


def cap_volume(r: float, h: float) -> float:
    """Cap of height h cut from a sphere of radius r (0 <= h <= 2r)."""
    if h <= 0.0:
        return 0.0
    lo, hi, a, b, c = sphere(0.0, r)
    # clip the sphere profile to [r - h, r]
    clip = (max(lo, r - h), hi, a, b, c)
    return union_volume([clip])


def frustum_volume(r0: float, r1: float, h: float) -> float:
    return union_volume([frustum(0.0, r0, h, r1)])
