"""Reference model for population containers: plain lists and path arithmetic."""

from __future__ import annotations

import posixpath


def matching(layout: dict, root: str, ext: str = ".swc") -> list[str]:
    """Relative paths (to root) of the files under root whose extension is ext.

    layout: rel path (from the disk root, '/'-separated) -> ("file", sig) | ("dir",)
    """
    out = []
    pre = root + "/"
    for p, v in layout.items():
        if v[0] != "file" or not p.startswith(pre):
            continue
        name = posixpath.basename(p)
        stem, e = posixpath.splitext(name)
        if e == ext and stem != "":
            out.append(p[len(pre):])
    return sorted(out)


def intersection(layout: dict, roots: list[str]) -> list[str]:
    sets = [set(matching(layout, r)) for r in roots]
    inter = sets[0]
    for s in sets[1:]:
        inter = inter & s
    return sorted(inter)


def norm_index(i: int, n: int):
    """Python sequence indexing: -> normalised index or None when out of range."""
    if i < -n or i >= n:
        return None
    return i + n if i < 0 else i


def slice_indices(a, b, c, n: int) -> list[int]:
    return list(range(*slice(a, b, c).indices(n)))


def chain_locate(lengths: list[int], k: int):
    """-> (member, offset) of element k in the concatenation."""
    for m, ln in enumerate(lengths):
        if k < ln:
            return m, k
        k -= ln
    return None
