"""Naive reference model of an SWC tree: rows in id order (id == position).

Imports nothing from swcgeom.  Floats are Python floats holding float32 values.
"""

from __future__ import annotations

import struct
from decimal import ROUND_HALF_EVEN, Decimal, getcontext

getcontext().prec = 120

FIELDS = ["type", "x", "y", "z", "r", "pid"]


def f32(v: float) -> float:
    """Round a Python float to the nearest float32 (ties to even), as a Python float."""
    return struct.unpack("f", struct.pack("f", v))[0]


# values chosen to stress the 4-decimal text format; all exactly float32-representable after f32()
SPECIAL_FLOATS = [
    0.0, -0.0, 1.0, -1.0, 0.5, 1e-7, -1e-7, 5e-5, -5e-5, 0.03125, 0.09375, 0.15625, 2.71875, -2.71875,
    0.00005, 0.00015, 0.00025, 1234.56789, -9876.54321, 1e30, -3.4e38 / 1e8, 16777216.0, 0.1, 0.2, 0.3,
    1.0 / 3.0, 99999.99995, 0.99995, 0.00004999, 123456.7,
]


def gen_shape(rng, n: int, shape: str | None = None) -> list[int]:
    """Parent list with parent[i] < i, parent[0] = -1."""
    shape = shape or rng.choice(["chain", "star", "random", "caterpillar", "binary", "stemmed"])
    parent = [-1] * n
    for i in range(1, n):
        if shape == "chain":
            parent[i] = i - 1
        elif shape == "star":
            parent[i] = 0
        elif shape == "random":
            parent[i] = rng.below(i)
        elif shape == "caterpillar":
            parent[i] = i - 1 if i % 2 == 1 or i < 2 else i - 2
        elif shape == "binary":
            parent[i] = (i - 1) // 2
        else:  # stemmed: a chain from the root, then random branching
            parent[i] = i - 1 if i < max(2, n // 3) else rng.randint(max(0, n // 3 - 1), i - 1)
    return parent


def gen_float(rng, scale: float = 100.0) -> float:
    k = rng.below(10)
    if k == 0:
        return f32(rng.choice(SPECIAL_FLOATS))
    if k == 1:
        return float(rng.randint(-50, 50))
    if k == 2:
        return f32(rng.randint(-10**6, 10**6) / 1e4 + 5e-5)
    return f32(rng.uniform(-scale, scale))


def gen_tree(rng, n: int, shape: str | None = None, *, wild: bool = True, types=None) -> dict:
    parent = gen_shape(rng, n, shape)
    tpool = types or [0, 1, 2, 3, 4, 5, 6, 7]
    t = {
        "type": [rng.choice(tpool) if not (wild and rng.chance(0.03)) else rng.below(2**31) for _ in range(n)],
        "x": [gen_float(rng) if wild else f32(rng.uniform(-100, 100)) for _ in range(n)],
        "y": [gen_float(rng) if wild else f32(rng.uniform(-100, 100)) for _ in range(n)],
        "z": [gen_float(rng) if wild else f32(rng.uniform(-100, 100)) for _ in range(n)],
        "r": [(gen_float(rng, 5.0) if wild and rng.chance(0.3) else f32(rng.uniform(0.05, 5.0))) for _ in range(n)],
        "pid": parent,
    }
    return t


def n_nodes(t: dict) -> int:
    return len(t["pid"])


def well_formed(ids, pids, *, sorted_required: bool = True, root_at: int = 0) -> str | None:
    """None if (ids, pids) is a well-formed tree in the sense of C03, else the reason."""
    n = len(ids)
    if len(pids) != n:
        return "id/pid length mismatch"
    if n == 0:
        return "empty tree"
    if list(ids) != list(range(n)):
        return "ids are not 0..n-1"
    roots = [i for i in range(n) if pids[i] == -1]
    if roots != [root_at]:
        return f"roots {roots[:5]} (expected exactly [{root_at}])"
    for i in range(n):
        p = pids[i]
        if i != root_at and not (0 <= p < n):
            return f"node {i} has parent {p} which is not a node"
    if sorted_required:
        for i in range(1, n):
            if not pids[i] < i:
                return f"parent {pids[i]} does not precede child {i}"
        return None
    # reachability
    state = [0] * n
    state[root_at] = 2
    for s in range(n):
        path, cur = [], s
        while state[cur] == 0:
            state[cur] = 1
            path.append(cur)
            cur = pids[cur]
        if state[cur] == 1:
            return f"node {s} does not reach the root (cycle)"
        for p in path:
            state[p] = 2
    return None


def quantize4(v: float) -> float:
    """The float32 obtained by writing v with four decimals and reading it back.

    Independent of str.format: exact Decimal expansion, ROUND_HALF_EVEN.
    """
    q = Decimal(v).quantize(Decimal("0.0001"), rounding=ROUND_HALF_EVEN)
    return f32(float(q))


def canonical(t: dict, attrs=("type", "x", "y", "z", "r"), table: dict | None = None) -> int:
    from models.swc_text import canonical_forms

    table = {} if table is None else table
    n = n_nodes(t)
    nodes = [tuple(t[a][i] for a in attrs) for i in range(n)]
    return canonical_forms(nodes, list(t["pid"]), table)
