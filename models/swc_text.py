"""Independent line-level recogniser for SWC text (reference model for C01/C02/C18).

Imports nothing from swcgeom.  Three-valued: for every text the verdict is

    MUST_REJECT  some line is unambiguously neither data, comment nor blank,
                 or the bytes do not decode
    EITHER       the property text is silent (exotic characters, `nan`, a lone CR,
                 non-numeric trailing fields, no data rows ...)
    MUST_ACCEPT  with the expected rows and comments
"""

from __future__ import annotations

import re
import unicodedata

MUST_ACCEPT, MUST_REJECT, EITHER = "MUST_ACCEPT", "MUST_REJECT", "EITHER"

RE_UINT = re.compile(r"[0-9]+\Z")
RE_INT = re.compile(r"-?[0-9]+\Z")
RE_FLOAT = re.compile(r"[+-]?(?:[0-9]+(?:\.[0-9]*)?|\.[0-9]+)(?:[eE][+-]?[0-9]+)?\Z")
HEADER = "id type x y z r pid"
BLANKS = " \t"


def split_lines(text: str) -> tuple[list[str], bool]:
    """Universal-newline split. Returns (lines without terminators, saw_lone_cr)."""
    lines, cur, i, lone_cr = [], [], 0, False
    n = len(text)
    while i < n:
        c = text[i]
        if c == "\r":
            if i + 1 < n and text[i + 1] == "\n":
                i += 1
            else:
                lone_cr = True
            lines.append("".join(cur))
            cur = []
        elif c == "\n":
            lines.append("".join(cur))
            cur = []
        else:
            cur.append(c)
        i += 1
    if cur:
        lines.append("".join(cur))
    return lines, lone_cr


def _exotic(ch: str) -> bool:
    """Characters on which a reasonable reader might legitimately differ."""
    if ch in BLANKS:
        return False
    if ch.isspace():
        return True
    cat = unicodedata.category(ch)
    return cat[0] in "CZ" or ord(ch) > 126 and not ch.isalpha()


def _python_numeric(tok: str) -> bool:
    try:
        float(tok)
        return True
    except ValueError:
        return False


def classify_line(line: str, n_extra: int):
    """-> ("blank",) | ("comment", text) | ("data", row) | ("bad", why) | ("ambig", why)

    row = {"id","type","x","y","z","r","pid","extra":[...], "trailing": int}
    with the float fields kept as the *tokens* (strings) so callers decide precision.
    """
    stripped = line.lstrip(BLANKS)
    if stripped == "" or stripped.strip(BLANKS) == "":
        return ("blank",)
    if stripped[0] == "#":
        return ("comment", stripped[1:])
    if all(c.isspace() for c in line):
        return ("ambig", "exotic blank line")
    if any(_exotic(c) for c in line):
        # exotic whitespace / control characters: readers may differ on whether they separate fields. The line is
        # malformed under EVERY reading when, even with all Unicode whitespace taken as separators, it has fewer than
        # seven fields or a field Python cannot read as a number (a lone Ctrl-Z, say); otherwise it is ambiguous.
        wide = line.split()
        if wide and wide[0].startswith("#"):
            # `#` preceded by exotic blanks (NBSP, NEL, ...): a comment for a reader that skips any Unicode whitespace
            return ("ambig", "comment mark after exotic whitespace")
        if len(wide) < 7 or not all(_python_numeric(t) for t in wide[:7]):
            return ("bad", "exotic characters and not a data row under any reading")
        return ("ambig", "exotic character")
    toks = line.split()  # only ' ' and '\t' can be present here
    need = 7 + n_extra
    kinds = [RE_UINT, RE_UINT, RE_FLOAT, RE_FLOAT, RE_FLOAT, RE_FLOAT, RE_INT] + [RE_FLOAT] * n_extra
    ambig = None
    for i, tok in enumerate(toks[:need]):
        if kinds[i].match(tok):
            continue
        if _python_numeric(tok) or tok.lstrip("+-").replace("_", "").isdigit():
            ambig = ambig or f"field {i} `{tok}` is numeric to Python but not to the strict grammar"
        else:
            return ("bad", f"field {i} `{tok}` is not numeric")
    if len(toks) < 7:
        return ("bad", f"only {len(toks)} fields")
    if len(toks) < need:
        return ("ambig", "fewer fields than requested columns")
    if ambig:
        # numeric to Python, not to the strict grammar (`2_000.0`, `+7` as an id, non-ASCII digits): a reader may reject
        # the line or accept it - but if it accepts, the only defensible values are the ones Python reads
        try:
            fl = [repr(float(t)) for t in toks[2:6]] + [repr(float(t)) for t in toks[7:need]]
            if any(v in ("nan", "inf", "-inf") for v in fl) or not all(RE_FLOAT.match(t) for t in toks[need:]):
                return ("ambig", ambig)
            row = {"id": int(toks[0]), "type": int(toks[1]), "x": fl[0], "y": fl[1], "z": fl[2], "r": fl[3],
                   "pid": int(toks[6]), "extra": fl[4:], "trailing": len(toks) - need}
            if row["id"] < 0 or row["type"] < 0:
                return ("ambig", ambig)
            return ("ambig", ambig, row)
        except ValueError:
            return ("ambig", ambig)
    trailing = toks[need:]
    for tok in trailing:
        if not RE_FLOAT.match(tok):
            return ("ambig", f"trailing field `{tok}` is not numeric")
    row = {
        "id": int(toks[0]),
        "type": int(toks[1]),
        "x": toks[2],
        "y": toks[3],
        "z": toks[4],
        "r": toks[5],
        "pid": int(toks[6]),
        "extra": toks[7:need],
        "trailing": len(trailing),
    }
    return ("data", row)


def is_header_comment(text: str) -> bool:
    return text.strip().lstrip("#").strip().startswith(HEADER)


def analyse(data: bytes | str, encoding: str = "utf-8", n_extra: int = 0) -> dict:
    """Verdict for one stored text."""
    if isinstance(data, bytes):
        try:
            text = data.decode(encoding)
        except (UnicodeDecodeError, LookupError) as e:
            return {"verdict": MUST_REJECT, "why": f"undecodable: {e}"}
    else:
        text = data
    lines, lone_cr = split_lines(text)
    rows, comments = [], []
    bad, ambig = None, None
    conditional = True  # every ambiguous line still has exactly one defensible reading
    for ln, line in enumerate(lines):
        c = classify_line(line, n_extra)
        if c[0] == "data":
            rows.append(c[1])
        elif c[0] == "comment":
            comments.append(c[1])
        elif c[0] == "bad":
            bad = bad or f"line {ln + 1}: {c[1]}"
        elif c[0] == "ambig":
            ambig = ambig or f"line {ln + 1}: {c[1]}"
            if len(c) == 3:
                rows.append(c[2])
            else:
                conditional = False
    if bad:
        return {"verdict": MUST_REJECT, "why": bad}
    if lone_cr:
        ambig, conditional = ambig or "lone CR", False
    if "\ufeff" in text:
        ambig, conditional = ambig or "BOM", False
    if not rows:
        ambig, conditional = ambig or "no data rows", False
    roots = [i for i, r in enumerate(rows) if r["pid"] == -1]
    ids = [r["id"] for r in rows]
    if ambig:
        out = {"verdict": EITHER, "why": ambig}
        if conditional:
            # if the reader accepts the text, it must have read it like this
            out["if_accepted"] = {"rows": rows, "comments": comments, "n_roots": len(roots),
                                  "first_root": roots[0] if roots else None,
                                  "distinct_ids": len(set(ids)) == len(ids),
                                  "any_trailing": any(r["trailing"] for r in rows)}
        return out
    return {
        "verdict": MUST_ACCEPT,
        "rows": rows,
        "comments": comments,
        "n_roots": len(roots),
        "first_root": roots[0] if roots else None,
        "distinct_ids": len(set(ids)) == len(ids),
        "any_trailing": any(r["trailing"] for r in rows),
    }


def describes_single_tree(rows: list[dict]) -> bool:
    """Distinct ids, exactly one parentless row, every pid names a row, every row reaches the root."""
    ids = [r["id"] for r in rows]
    if len(set(ids)) != len(ids):
        return False
    roots = [r for r in rows if r["pid"] == -1]
    if len(roots) != 1:
        return False
    parent = {r["id"]: r["pid"] for r in rows}
    idset = set(ids)
    if any(p != -1 and p not in idset for p in parent.values()):
        return False
    root = roots[0]["id"]
    children: dict[int, list[int]] = {}
    for i, p in parent.items():
        children.setdefault(p, []).append(i)
    seen, stack = 0, [root]
    while stack:
        v = stack.pop()
        seen += 1
        stack.extend(children.get(v, []))
    return seen == len(ids)


def graph_has_cycle(rows: list[dict]) -> bool:
    """Following parent ids from some row never ends (dangling ids count as ends)."""
    parent = {r["id"]: r["pid"] for r in rows}
    state: dict[int, int] = {}
    for start in parent:
        path, cur = [], start
        while cur in parent and cur not in state:
            state[cur] = 1
            path.append(cur)
            cur = parent[cur]
        if cur in state and state[cur] == 1:
            return True
        for p in path:
            state[p] = 2
    return False


def canonical_forms(nodes: list[tuple], parent_of: list[int], table: dict) -> int:
    """Canonical id of a rooted attributed tree (AHU with attributes), iterative.

    nodes[i] is the attribute tuple of node i, parent_of[i] its parent index (-1 root).
    `table` is shared between the trees being compared.
    """
    n = len(nodes)
    children = [[] for _ in range(n)]
    root = -1
    for i, p in enumerate(parent_of):
        if p == -1:
            root = i
        else:
            children[p].append(i)
    order, stack = [], [root]
    while stack:
        v = stack.pop()
        order.append(v)
        stack.extend(children[v])
    if len(order) != n:
        raise ValueError("not a tree")
    canon = [0] * n
    for v in reversed(order):
        key = (nodes[v], tuple(sorted(canon[c] for c in children[v])))
        cid = table.get(key)
        if cid is None:
            cid = len(table) + 1
            table[key] = cid
        canon[v] = cid
    return canon[root]
