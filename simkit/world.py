"""The simulated environment around the library under test.

`World` owns, for the duration of one run:

* a scratch directory (SimDisk) reached only through the interposed
  `builtins.open` / `io.open` / `os.scandir` / `os.listdir`;
* the stream stack below every file the library reads or writes
  (raw -> buffered -> text), its chunk schedule and its planned faults;
* the NumPy global RNG (`np.random.rand` wrapper with injectable draws);
* the warnings registry (every run records all warnings);
* a deterministic step budget (line events) that turns a hang into an event;
* the event log and the fired-fault / probe counters.

Nothing here draws from a PRNG: every schedule is a concrete list taken from
the program being executed, so replay is a pure function of the program.
"""

from __future__ import annotations

import builtins
import errno
import hashlib
import io
import json
import os
import shutil
import sys
import tempfile
import warnings
import weakref
from collections import Counter
from typing import Any, Callable, Optional


class StepBudgetExceeded(BaseException):
    """Raised (deterministically) when an operation exceeds its line budget.

    Derives from BaseException so that `except Exception` inside the library
    cannot swallow it and turn a hang into a pass.
    """


class SimIOError(OSError):
    """The injected I/O error (errno EIO / ENOSPC / ENOENT)."""


# ---------------------------------------------------------------------------
# stream plans


class StreamPlan:
    """How the bytes of one stream are delivered.

    chunks     : list of max sizes for successive raw reads (cycled); [] = no limit
    buffer_size: BufferedReader/Writer buffer
    text_chunk : TextIOWrapper._CHUNK_SIZE
    eio_at     : raw byte offset at which a read raises EIO (None = never)
    """

    __slots__ = ("chunks", "buffer_size", "text_chunk", "eio_at", "werr_at", "werrno")

    def __init__(
        self,
        chunks=None,
        buffer_size: int = 8192,
        text_chunk: int = 8192,
        eio_at: Optional[int] = None,
        werr_at: Optional[int] = None,
        werrno: int = errno.ENOSPC,
    ):
        self.chunks = list(chunks or [])
        self.buffer_size = max(1, int(buffer_size))
        self.text_chunk = max(1, int(text_chunk))
        self.eio_at = eio_at
        self.werr_at = werr_at
        self.werrno = werrno

    @staticmethod
    def from_json(d: Optional[dict]) -> "StreamPlan":
        d = d or {}
        return StreamPlan(
            chunks=d.get("chunks"),
            buffer_size=d.get("buffer_size", 8192),
            text_chunk=d.get("text_chunk", 8192),
            eio_at=d.get("eio_at"),
            werr_at=d.get("werr_at"),
            werrno=d.get("werrno", errno.ENOSPC),
        )

    def is_default(self) -> bool:
        return (
            not self.chunks
            and self.buffer_size == 8192
            and self.text_chunk == 8192
            and self.eio_at is None
            and self.werr_at is None
        )


class _ChunkCycle:
    __slots__ = ("chunks", "i")

    def __init__(self, chunks):
        self.chunks = [max(1, int(c)) for c in chunks]
        self.i = 0

    def next(self, want: int) -> int:
        if not self.chunks:
            return want
        c = self.chunks[self.i % len(self.chunks)]
        self.i += 1
        return min(want, c)


class FaultyRawReader(io.RawIOBase):
    """Raw reader over an in-memory or on-disk byte source obeying a StreamPlan."""

    def __init__(self, inner, plan: StreamPlan, world: "World", label: str):
        super().__init__()
        self._inner = inner
        self._plan = plan
        self._cyc = _ChunkCycle(plan.chunks)
        self._pos = 0
        self._world = world
        self._label = label
        self.name = label

    def readable(self) -> bool:
        return True

    def readinto(self, b) -> int:
        want = len(b)
        if want == 0:
            return 0
        plan = self._plan
        if plan.eio_at is not None:
            if self._pos >= plan.eio_at:
                self._world.fired("eio_read")
                raise SimIOError(errno.EIO, "simulated I/O error", self._label)
            want = min(want, plan.eio_at - self._pos)
        n = self._cyc.next(want)
        if n < len(b):
            self._world.fired_quiet("short_read")
        data = self._inner.read(n)
        k = len(data)
        b[:k] = data
        self._pos += k
        self._world.io_bytes[self._label] += k
        return k

    def close(self) -> None:
        if not self.closed:
            try:
                self._inner.close()
            finally:
                super().close()


class FaultyRawWriter(io.RawIOBase):
    """Raw writer: accepts short writes (legal for raw I/O) and planned errors."""

    def __init__(self, inner, plan: StreamPlan, world: "World", label: str):
        super().__init__()
        self._inner = inner
        self._plan = plan
        self._cyc = _ChunkCycle(plan.chunks)
        self._pos = 0
        self._world = world
        self._label = label
        self.name = label

    def writable(self) -> bool:
        return True

    def write(self, b) -> int:
        mv = memoryview(b).cast("B")
        want = len(mv)
        if want == 0:
            return 0
        plan = self._plan
        if plan.werr_at is not None:
            if self._pos >= plan.werr_at:
                self._world.fired("write_error")
                raise SimIOError(plan.werrno, "simulated write error", self._label)
            want = min(want, plan.werr_at - self._pos)
        n = self._cyc.next(want)
        if n < len(mv):
            self._world.fired_quiet("short_write")
        k = self._inner.write(mv[:n])
        if k is None:
            k = n
        self._pos += k
        return k

    def close(self) -> None:
        if not self.closed:
            try:
                self._inner.close()
            finally:
                super().close()


class SimBytesIO(io.BytesIO):
    """A BytesIO (so `isinstance(x, BytesIO)` holds) whose reads obey a plan."""

    def __init__(self, data: bytes, plan: StreamPlan, world: "World", label="<bytes>"):
        super().__init__(data)
        self._plan = plan
        self._cyc = _ChunkCycle(plan.chunks)
        self._world = world
        self._label = label

    def _limit(self, size) -> int:
        pos = self.tell()
        remaining = len(self.getbuffer()) - pos
        want = remaining if size is None or size < 0 else min(size, remaining)
        plan = self._plan
        if plan.eio_at is not None:
            if pos >= plan.eio_at:
                self._world.fired("eio_read")
                raise SimIOError(errno.EIO, "simulated I/O error", self._label)
            want = min(want, plan.eio_at - pos)
        if want <= 0:
            return 0
        n = self._cyc.next(want)
        if n < want:
            self._world.fired_quiet("short_read")
        return n

    def read(self, size=-1):
        return super().read(self._limit(size))

    def read1(self, size=-1):
        return super().read1(self._limit(size))

    def readinto(self, b):
        n = self._limit(len(b))
        data = super().read(n)
        b[: len(data)] = data
        return len(data)


class SimStringIO(io.StringIO):
    """A StringIO whose line reads can fail at a planned character offset."""

    def __init__(self, text: str, eio_at: Optional[int], world: "World"):
        super().__init__(text, newline="")  # keep \r\n as written
        self._eio_at = eio_at
        self._world = world

    def _check(self):
        if self._eio_at is not None and self.tell() >= self._eio_at:
            self._world.fired("eio_read")
            raise SimIOError(errno.EIO, "simulated I/O error", "<text>")

    def readline(self, size=-1):
        self._check()
        line = super().readline(size)
        if (
            self._eio_at is not None
            and self.tell() > self._eio_at
        ):
            # the failure lies inside this line: the caller never sees it
            self._world.fired("eio_read")
            raise SimIOError(errno.EIO, "simulated I/O error", "<text>")
        return line

    def __next__(self):
        line = self.readline()
        if not line:
            raise StopIteration
        return line

    def read(self, size=-1):
        self._check()
        if self._eio_at is not None:
            room = self._eio_at - self.tell()
            if size is None or size < 0 or size > room:
                size = room
                if size <= 0:
                    self._check()
        return super().read(size)


# ---------------------------------------------------------------------------


class _ScandirResult:
    def __init__(self, entries):
        self._it = iter(entries)

    def __iter__(self):
        return self

    def __next__(self):
        return next(self._it)

    def __enter__(self):
        return self

    def __exit__(self, *a):
        return False

    def close(self):
        pass


_REAL_ID = id


class SimIds:
    """Object identities as the library sees them (`id(...)` inside every loaded `swcgeom` module).

    CPython only promises that `id()` is unique among *live* objects; which dead object's address the next
    allocation receives depends on allocator state the simulator does not control - so a run that depends on it
    cannot be replayed.  This seam makes the reuse a decided, repeatable event: an identity is released when its
    object dies (weak-reference callback) and handed, last-released first, to the next new object *of the same
    type* that is asked for its id - the worst legal behaviour, and what pymalloc's per-size free lists tend to do.
    Objects that cannot be weakly referenced (int, str, tuple, list, dict) keep their real id."""

    BASE = 1 << 60

    def __init__(self, world: "World"):
        self.world = world
        self.by_rid: dict[int, tuple] = {}
        self.free: dict[str, list[int]] = {}
        self.n = 0

    def _dead(self, rid: int) -> None:
        ent = self.by_rid.pop(rid, None)
        if ent is not None:
            self.free.setdefault(ent[2], []).append(ent[1])

    def __call__(self, obj) -> int:
        rid = _REAL_ID(obj)
        ent = self.by_rid.get(rid)
        if ent is not None and ent[0]() is obj:
            return ent[1]
        try:
            wr = weakref.ref(obj, lambda _w, rid=rid: self._dead(rid))
        except TypeError:
            return rid
        tname = type(obj).__qualname__
        fl = self.free.get(tname)
        if fl:
            sid = fl.pop()
            self.world.fired_quiet("identity_reused")
        else:
            sid = self.BASE + self.n
            self.n += 1
        self.by_rid[rid] = (wr, sid, tname)
        return sid


class World:
    def __init__(self):
        base = "/dev/shm" if os.path.isdir("/dev/shm") and os.access("/dev/shm", os.W_OK) else None
        self.root = os.path.realpath(tempfile.mkdtemp(prefix="simdisk-", dir=base))
        self.events: list = []
        self.faults: Counter = Counter()
        self.probes: Counter = Counter()
        self.io_bytes: Counter = Counter()
        self.opens: Counter = Counter()  # rel path -> number of opens for reading
        self.open_log: list = []  # rel paths in open order (reads)
        self.read_plans: dict[str, StreamPlan] = {}
        self.write_plans: dict[str, StreamPlan] = {}
        self.default_read_plan = StreamPlan()
        self.default_write_plan = StreamPlan()
        self.enoent: set[str] = set()  # rel paths that vanish at open time
        self.listing_perms: list = []  # successive permutation keys for scandir
        self._listing_i = 0
        self.rng_inject: dict[int, list] = {}  # draw index -> vector
        self.rng_draws = 0
        self.warnings: list = []
        self._installed = False
        self._saved: dict[str, Any] = {}
        self._wctx = None

    # -- accounting -------------------------------------------------------
    def log(self, *ev) -> None:
        self.events.append(list(ev))

    def fired(self, kind: str) -> None:
        self.faults[kind] += 1

    def fired_quiet(self, kind: str) -> None:
        self.faults[kind] += 1

    def probe(self, name: str, n: int = 1) -> None:
        self.probes[name] += n

    def digest(self) -> str:
        blob = json.dumps(self.events, sort_keys=True, separators=(",", ":"), default=str)
        return hashlib.sha256(blob.encode()).hexdigest()

    # -- paths --------------------------------------------------------------
    def path(self, rel: str) -> str:
        return os.path.join(self.root, rel)

    def rel(self, p) -> Optional[str]:
        try:
            if isinstance(p, bytes):
                p = os.fsdecode(p)
            if isinstance(p, os.PathLike):
                p = os.fspath(p)
            if not isinstance(p, str):
                return None
            # the file a path names is decided by the file system, not by the spelling: `link/../x` is resolved through
            # the link (a lexical abspath would collapse it to a different file)
            ap = os.path.realpath(p)
        except Exception:
            return None
        if ap == self.root:
            return ""
        if ap.startswith(self.root + os.sep):
            return ap[len(self.root) + 1 :]
        return None

    def put(self, rel: str, data: bytes) -> str:
        p = self.path(rel)
        os.makedirs(os.path.dirname(p), exist_ok=True)
        with self._real_open(p, "wb") as f:
            f.write(data)
        return p

    def get(self, rel: str) -> bytes:
        with self._real_open(self.path(rel), "rb") as f:
            return f.read()

    def spelled(self, rel: str, form: str) -> str:
        """Another spelling of the SimDisk file `rel` (same file for the kernel): through `.` segments and doubled
        separators, or through a symbolic link to a sub-directory and `..` - which a lexical normalisation
        (os.path.abspath / normpath) collapses to a DIFFERENT name, where a decoy file is placed."""
        d, base = os.path.split(rel)
        if form == "dots":
            return os.path.join(self.root, d, ".", "") + os.sep + base if d else os.path.join(self.root, ".", base)
        if form == "symlink_dotdot":
            inner = os.path.join(self.root, d, "inner-2024")
            os.makedirs(inner, exist_ok=True)
            proj = os.path.join(self.root, "proj")
            os.makedirs(proj, exist_ok=True)
            link = os.path.join(proj, "latest")
            if not os.path.islink(link):
                os.symlink(inner, link)
            decoy = os.path.join(proj, base)  # what `proj/latest/../<base>` collapses to lexically
            if not os.path.exists(decoy):
                with self._real_open(decoy, "wb") as f:
                    f.write(b"# decoy at the lexically collapsed name\n1 1 9.5 9.5 9.5 9.5 -1\n2 7 8.5 8.5 8.5 8.5 1\n")
            return os.path.join(link, "..", base)
        return self.path(rel)

    def mkdir(self, rel: str) -> str:
        p = self.path(rel)
        os.makedirs(p, exist_ok=True)
        return p

    @property
    def _real_open(self):
        return self._saved.get("io.open", io.open)

    # -- interposed functions ------------------------------------------------
    def _sim_open(self, file, mode="r", buffering=-1, encoding=None, errors=None,
                  newline=None, closefd=True, opener=None):
        real = self._saved["io.open"]
        rel = self.rel(file) if not isinstance(file, int) else None
        if rel is None or opener is not None:
            return real(file, mode, buffering, encoding, errors, newline, closefd, opener)
        m = "".join(sorted(mode.replace("t", "")))
        if m in ("r", "br"):
            if rel in self.enoent:
                self.fired("enoent")
                self.opens[rel] += 1
                self.open_log.append(rel)
                raise FileNotFoundError(errno.ENOENT, "simulated: file vanished", str(file))
            plan = self.read_plans.get(rel, self.default_read_plan)
            fio = io.FileIO(file, "r")  # raises naturally if missing
            self.opens[rel] += 1
            self.open_log.append(rel)
            raw = FaultyRawReader(fio, plan, self, rel)
            buf = io.BufferedReader(raw, buffer_size=plan.buffer_size)
            if "b" in m:
                return buf
            txt = io.TextIOWrapper(buf, encoding=encoding, errors=errors, newline=newline)
            try:
                txt._CHUNK_SIZE = plan.text_chunk
            except Exception:
                pass
            txt.mode = mode
            return txt
        if m in ("w", "bw"):
            plan = self.write_plans.get(rel, self.default_write_plan)
            fio = io.FileIO(file, "w")
            raw = FaultyRawWriter(fio, plan, self, rel)
            buf = io.BufferedWriter(raw, buffer_size=plan.buffer_size)
            if "b" in m:
                return buf
            txt = io.TextIOWrapper(buf, encoding=encoding, errors=errors, newline=newline)
            txt.mode = mode
            return txt
        return real(file, mode, buffering, encoding, errors, newline, closefd, opener)

    def _perm(self, names: list[str]) -> list[int]:
        """Next planned permutation of a directory's sorted entry names."""
        n = len(names)
        if self.listing_perms:
            keys = self.listing_perms[self._listing_i % len(self.listing_perms)]
        else:
            keys = []
        self._listing_i += 1
        # keys is a list of sort keys (cycled); stable sort by key gives the order
        if not keys:
            return list(range(n))
        order = sorted(range(n), key=lambda i: (keys[i % len(keys)], i))
        if order != list(range(n)):
            self.fired_quiet("listing_permuted")
        return order

    def _sim_scandir(self, path="."):
        real = self._saved["os.scandir"]
        rel = self.rel(path) if not isinstance(path, int) else None
        if rel is None:
            return real(path)
        with real(path) as it:
            entries = sorted(it, key=lambda e: e.name)
        order = self._perm([e.name for e in entries])
        return _ScandirResult([entries[i] for i in order])

    def _sim_listdir(self, path="."):
        real = self._saved["os.listdir"]
        rel = self.rel(path) if not isinstance(path, int) else None
        if rel is None:
            return real(path)
        names = sorted(real(path))
        order = self._perm(names)
        return [names[i] for i in order]

    def _sim_rand(self, *shape):
        import numpy as np

        real = self._saved["np.random.rand"]
        i = self.rng_draws
        self.rng_draws += 1
        out = real(*shape)
        inj = self.rng_inject.get(i)
        if inj is not None and tuple(shape) == (len(inj),):
            self.fired("rng_draw_replaced")
            return np.asarray(inj, dtype=np.float64)
        return out

    # -- install / uninstall ---------------------------------------------------
    def __enter__(self) -> "World":
        import numpy as np

        self._saved = {
            "builtins.open": builtins.open,
            "io.open": io.open,
            "os.scandir": os.scandir,
            "os.listdir": os.listdir,
            "np.random.rand": np.random.rand,
        }
        builtins.open = self._sim_open
        io.open = self._sim_open
        os.scandir = self._sim_scandir
        os.listdir = self._sim_listdir
        np.random.rand = self._sim_rand
        # identity seam: `id` as resolved inside every loaded swcgeom module (module globals shadow builtins)
        self.sim_ids = SimIds(self)
        self._id_patched = []
        for name, mod in list(sys.modules.items()):
            if mod is not None and (name == "swcgeom" or name.startswith("swcgeom.")) and "id" not in vars(mod):
                try:
                    setattr(mod, "id", self.sim_ids)
                    self._id_patched.append(mod)
                except Exception:  # noqa: BLE001
                    pass
        self._wctx = warnings.catch_warnings(record=True)
        self.warnings = self._wctx.__enter__()
        warnings.simplefilter("always")
        self._installed = True
        return self

    def __exit__(self, *exc) -> bool:
        import numpy as np

        if self._installed:
            builtins.open = self._saved["builtins.open"]
            io.open = self._saved["io.open"]
            os.scandir = self._saved["os.scandir"]
            os.listdir = self._saved["os.listdir"]
            np.random.rand = self._saved["np.random.rand"]
            for mod in getattr(self, "_id_patched", []):
                try:
                    delattr(mod, "id")
                except Exception:  # noqa: BLE001
                    pass
            self._wctx.__exit__(None, None, None)
            self._installed = False
        shutil.rmtree(self.root, ignore_errors=True)
        return False

    def take_warnings(self) -> list:
        out = [(type(w.message).__name__ if not isinstance(w.message, str) else "str",
                str(w.message), w.category.__name__) for w in self.warnings]
        del self.warnings[:]
        return out

    # -- readers handed in by the caller --------------------------------------
    def bytes_source(self, data: bytes, plan: StreamPlan) -> SimBytesIO:
        return SimBytesIO(data, plan, self)

    def text_wrapper_source(self, data: bytes, plan: StreamPlan, encoding: str,
                            newline=None) -> io.TextIOWrapper:
        raw = FaultyRawReader(io.BytesIO(data), plan, self, "<textwrapper>")
        buf = io.BufferedReader(raw, buffer_size=plan.buffer_size)
        txt = io.TextIOWrapper(buf, encoding=encoding, newline=newline)
        try:
            txt._CHUNK_SIZE = plan.text_chunk
        except Exception:
            pass
        return txt

    def string_source(self, text: str, eio_at: Optional[int] = None) -> SimStringIO:
        return SimStringIO(text, eio_at, self)


# ---------------------------------------------------------------------------
# deterministic step budget


def call_with_budget(fn: Callable[[], Any], budget: int):
    """Run fn(); raise StepBudgetExceeded after `budget` traced line events.

    Counting line events of Python frames is deterministic for a given input
    and code, unlike a wall-clock alarm.
    """
    count = 0

    def local(frame, event, arg):
        nonlocal count
        if event == "line":
            count += 1
            if count > budget:
                raise StepBudgetExceeded(f"more than {budget} line events")
        return local

    def tracer(frame, event, arg):
        return local

    old = sys.gettrace()
    sys.settrace(tracer)
    try:
        return fn()
    finally:
        sys.settrace(old)
