"""Batch runner: seeded search over many simulated runs, shrink, replay, evidence.

Entry points (all through /verif/check):

    check <ID> --tier quick|thorough      parent: spawn 16 shard workers, aggregate
    check <ID> --replay <file>            re-execute a replay file in a fresh interpreter

Internal sub-commands (fresh interpreters started by the parent):

    --shard <k>      run the indices i == k (mod SHARDS) of the tier
    --shrink <file>  minimise a failing program, keeping its violation signature
    --exec <file>    execute one program file and print signature + digest

Exit codes: 0 held (KNOWN-FINDING lines allowed) / 1 VIOLATION / 2 harness failure.
"""

from __future__ import annotations

import faulthandler
import locale
import hashlib
import importlib
import json
import os
import signal
import subprocess
import sys
import time
import traceback

VERIF = os.path.dirname(os.path.dirname(os.path.abspath(__file__)))
if VERIF not in sys.path:
    sys.path.insert(0, VERIF)

from simkit.prng import Prng, run_seed  # noqa: E402

SHARDS = 16
# The registered commands always test /repo's working tree (the editable install). VERIF_REPO exists only so
# that a background soak (`vp run --with-repo`) can test a frozen snapshot of /repo's HEAD while /repo itself
# is being used for sensitivity runs.
REPO_ROOT = os.environ.get("VERIF_REPO") or "/repo"
PY = sys.executable
PRELUDE_RATE = 0.2  # share of runs that execute another generated program first, in the same process
RUN_WALL_S = 120  # per-run watchdog in seconds of the run's own CPU time (slowest legitimate run measured: ~20 s of wall time under triple load; evidence reports it)


def load_prop(prop: str):
    return importlib.import_module(f"props.{prop.lower()}")


def assert_repo():
    import swcgeom

    p = os.path.realpath(swcgeom.__file__)
    root = os.path.realpath(REPO_ROOT)
    if not p.startswith(root + "/"):
        raise SystemExit(f"HARNESS: swcgeom imported from {p}, not {root}")
    # warm up everything a run may import, so that forked runs start from one complete image
    import swcgeom.analysis  # noqa: F401
    import swcgeom.core  # noqa: F401
    import swcgeom.core.swc_utils  # noqa: F401
    import swcgeom.transforms  # noqa: F401
    import swcgeom.utils  # noqa: F401


class RunHang(BaseException):
    pass


def _alarm(signum, frame):
    raise RunHang("run exceeded wall-clock watchdog")


def signature(v: dict) -> str:
    return f"{v['tag']}:{v.get('op', '')}"


def execute_guarded(mod, program: dict) -> dict:
    """Execute one program; a watchdog hang or harness exception is classified."""
    # the watchdog counts the run's own CPU time (user + system), so a machine loaded by other batches cannot turn a
    # slow run into a "hang"; a wall-clock alarm six times as long stays behind it for a run that blocks without burning CPU
    budget_s = int(getattr(mod, "RUN_WALL_S", RUN_WALL_S))
    signal.signal(signal.SIGPROF, _alarm)
    signal.signal(signal.SIGALRM, _alarm)
    signal.setitimer(signal.ITIMER_PROF, budget_s)
    signal.alarm(6 * budget_s)
    try:
        pre = program.get("_prelude")
        if pre is not None:
            # session history across programs: another generated program of the same property is executed first
            # in this process, its verdict ignored (it is judged as its own run); whatever it left behind in the
            # library - module-level caches, class-level defaults, remembered failures - is the environment the
            # judged program then runs in
            try:
                mod.execute(pre)
            except Exception:  # noqa: BLE001
                pass
        res = mod.execute(program)
        if pre is not None:
            res.setdefault("probes", {})["runner.prelude_program_executed_first"] = 1
            if res.get("violation"):
                res["violation"]["after_prelude"] = True
    except RunHang:
        res = {
            "violation": {"tag": "hang", "op": "run", "detail": f"no return within {getattr(mod, 'RUN_WALL_S', RUN_WALL_S)}s"},
            "digest": "hang",
            "steps": 0,
        }
    except Exception:  # harness bug, not a verdict
        res = {"harness_error": traceback.format_exc(), "digest": "error", "steps": 0}
    finally:
        signal.setitimer(signal.ITIMER_PROF, 0)
        signal.alarm(0)
    return res


def execute_isolated(mod, program: dict) -> dict:
    """Execute one program in a forked child of this (already warmed-up) interpreter.

    Every run therefore starts from the same process image: state that the library keeps at module or
    class level (a shared default list, a cache, the global NumPy RNG) cannot leak from one run into
    the next, which would make a run depend on which runs happened to precede it in its worker - and
    would make the fresh-interpreter replay of a minimised program disagree with the batch.
    """
    if os.environ.get("VERIF_ISOLATE", "1") == "0":
        return execute_guarded(mod, program)
    r, w = os.pipe()
    pid = os.fork()
    if pid == 0:
        code = 0
        try:
            os.close(r)
            res = execute_guarded(mod, program)
            with os.fdopen(w, "w") as f:
                json.dump(res, f, default=str)
        except BaseException:  # noqa: BLE001
            code = 70
        finally:
            os._exit(code)
    os.close(w)
    with os.fdopen(r, "r") as f:
        data = f.read()
    _, status = os.waitpid(pid, 0)
    if status != 0 or not data:
        return {"harness_error": f"isolated run died: wait status {status}, {len(data)} bytes of result",
                "digest": "error", "steps": 0}
    return json.loads(data)


# ---------------------------------------------------------------------------
# shard worker


def make_program(mod, prop: str, tier: str, verif_seed: int, i: int) -> dict:
    seed = run_seed(verif_seed, prop, i)
    program = mod.generate(Prng(seed), tier)
    program["_seed"] = seed
    program["_index"] = i
    if Prng(seed).stream("runner.prelude").chance(PRELUDE_RATE):
        program["_prelude"] = mod.generate(Prng(run_seed(verif_seed, prop, i + 1000003)), "quick")
    return program


def cmd_shard(prop: str, tier: str, verif_seed: int, shard: int, out: str) -> int:
    assert_repo()
    mod = load_prop(prop)
    n = int(os.environ.get("VERIF_RUNS", mod.TIERS[tier]))
    faulthandler.enable()
    with open(out, "w") as f:
        for i in range(shard, n, SHARDS):
            seed = run_seed(verif_seed, prop, i)
            program = make_program(mod, prop, tier, verif_seed, i)
            t_run = time.time()  # measured outside the run; reported only, never logged into a digest
            res = execute_isolated(mod, program)
            rec = {
                "env": f"PYTHONHASHSEED={os.environ.get('PYTHONHASHSEED')} text-encoding={locale.getencoding()} "
                       f"optimize={sys.flags.optimize}",
                "wall_ms": int((time.time() - t_run) * 1000),
                "i": i,
                "seed": seed,
                "digest": res.get("digest"),
                "steps": res.get("steps", 0),
                "faults": res.get("faults", {}),
                "probes": res.get("probes", {}),
                "nontrivial": bool(res.get("nontrivial", False)),
                "config": res.get("config", "fault_free"),
                "states": res.get("states", []),
            }
            if "harness_error" in res:
                rec["harness_error"] = res["harness_error"]
                rec["program"] = program
            v = res.get("violation")
            if v:
                rec["violation"] = v
                rec["program"] = program
            elif i < 3:
                rec["sample"] = program
            f.write(json.dumps(rec, sort_keys=True) + "\n")
            f.flush()
        f.write(json.dumps({"shard_done": shard}) + "\n")
    return 0


# ---------------------------------------------------------------------------
# shrinking


def size_of(program) -> int:
    return len(json.dumps(program, sort_keys=True))


def _candidates(mod, program: dict):
    pre = program.get("_prelude")
    if pre is not None:
        q = dict(program)
        del q["_prelude"]
        yield q
    yield from mod.shrink_candidates(program)
    if pre is not None:
        for c in mod.shrink_candidates(pre):
            q = dict(program)
            q["_prelude"] = c
            yield q


def cmd_shrink(prop: str, path: str) -> int:
    assert_repo()
    mod = load_prop(prop)
    with open(path) as f:
        job = json.load(f)
    program, sig = job["program"], job["signature"]
    budget = int(job.get("budget", 400))
    findings = load_findings(prop)
    seen = {hashlib.sha1(json.dumps(program, sort_keys=True).encode()).hexdigest()}
    used = 0
    best = program
    improved = True
    # wall-clock cap on minimisation only (a safety net for very large programs): it can make the
    # replay file less minimal, never changes a verdict - the result is re-executed afterwards anyway
    t_end = time.time() + float(os.environ.get("VERIF_SHRINK_WALL_S", "240"))
    while improved and used < budget and time.time() < t_end:
        improved = False
        for cand in _candidates(mod, best):
            if used >= budget or time.time() >= t_end:
                break
            key = hashlib.sha1(json.dumps(cand, sort_keys=True).encode()).hexdigest()
            if key in seen:
                continue
            seen.add(key)
            used += 1
            res = execute_isolated(mod, cand)
            v = res.get("violation")
            if v and signature(v) == sig and match_finding(mod, findings, cand, v) is None:
                best = cand
                improved = True
                break
    res = execute_isolated(mod, best)
    out = {
        "program": best,
        "violation": res.get("violation"),
        "digest": res.get("digest"),
        "shrink_executions": used,
    }
    with open(path + ".out", "w") as f:
        json.dump(out, f, sort_keys=True)
    return 0


def cmd_digests(prop: str, tier: str, verif_seed: int, start: int, count: int, step: int) -> int:
    """Print 'index digest program-hash' per run (determinism self-test)."""
    assert_repo()
    mod = load_prop(prop)
    for i in range(start, start + count * step, step):
        program = make_program(mod, prop, tier, verif_seed, i)
        ph = hashlib.sha256(json.dumps(program, sort_keys=True).encode()).hexdigest()[:16]
        res = execute_isolated(mod, program)
        v = res.get("violation")
        print(i, res.get("digest"), ph, signature(v) if v else "-", flush=True)
    return 0


def cmd_exec(prop: str, path: str) -> int:
    assert_repo()
    mod = load_prop(prop)
    with open(path) as f:
        doc = json.load(f)
    program = doc["program"] if "program" in doc else doc
    res = execute_isolated(mod, program)
    v = res.get("violation")
    print(json.dumps({
        "signature": signature(v) if v else None,
        "violation": v,
        "digest": res.get("digest"),
        "harness_error": res.get("harness_error"),
    }, sort_keys=True))
    return 0


# ---------------------------------------------------------------------------
# parent


def hashseed_for(mod, shard: int) -> str:
    """The process-level environment of a shard, as one string recorded in replay files: the PYTHONHASHSEED, and for
    properties that read or write text files (LOCALE_VARIES) the tag `:ascii` on three of the sixteen shards, which
    are started in a non-UTF-8 locale (LC_ALL=C with UTF-8 mode and locale coercion off - what `open()` without an
    explicit encoding sees on a system whose code page is not UTF-8)."""
    hs = str(shard + 1) if getattr(mod, "HASHSEED_VARIES", False) else "0"
    if getattr(mod, "LOCALE_VARIES", False) and shard % 16 >= 13:
        hs += ":ascii"
    if shard % 16 == 12:
        hs += ":opt"  # an optimised interpreter (python -O / PYTHONOPTIMIZE=1): `assert` statements are compiled away
    return hs


def spawn(args: list[str], hashseed: str, timeout_s: int, **kw) -> subprocess.Popen:
    env = dict(os.environ)
    hashseed, _, tags = str(hashseed).partition(":")
    if "ascii" in tags.split(":"):
        env.update(LC_ALL="C", LANG="C", PYTHONUTF8="0", PYTHONCOERCECLOCALE="0")
    env.pop("PYTHONOPTIMIZE", None)
    if "opt" in tags.split(":"):
        env["PYTHONOPTIMIZE"] = "1"
    env["PYTHONHASHSEED"] = hashseed
    env["PYTHONDONTWRITEBYTECODE"] = "1"
    env.setdefault("OMP_NUM_THREADS", "1")
    env.setdefault("OPENBLAS_NUM_THREADS", "1")
    env.setdefault("MKL_NUM_THREADS", "1")
    if os.path.realpath(REPO_ROOT) != "/repo":
        env["PYTHONPATH"] = os.path.realpath(REPO_ROOT) + (os.pathsep + env["PYTHONPATH"] if env.get("PYTHONPATH") else "")
    cmd = ["timeout", "-k", "10", str(timeout_s), PY, os.path.abspath(__file__)] + args
    return subprocess.Popen(cmd, env=env, cwd=VERIF, **kw)


def load_findings(prop: str) -> list[dict]:
    p = os.path.join(VERIF, "known_findings.json")
    if not os.path.exists(p):
        return []
    with open(p) as f:
        doc = json.load(f)
    return [e for e in doc.get("findings", []) if e.get("property") == prop and e.get("status") == "open"]


def match_finding(mod, findings: list[dict], program: dict, violation: dict):
    preds = getattr(mod, "FINDING_PREDICATES", {})
    for e in findings:
        if e.get("signature") != signature(violation):
            continue
        pred = preds.get(e.get("predicate", ""))
        if pred is None:
            continue
        try:
            if pred(program, violation):
                return e
        except Exception:
            continue
    return None


def run_json(args, hashseed, timeout_s=600):
    p = spawn(args, hashseed, timeout_s, stdout=subprocess.PIPE, stderr=subprocess.PIPE, text=True)
    out, err = p.communicate()
    return p.returncode, out, err


def parent(prop: str, tier: str, verif_seed: int) -> int:
    import tempfile

    t0 = time.time()
    mod = load_prop(prop)
    n_runs = int(os.environ.get("VERIF_RUNS", mod.TIERS[tier]))
    tmo = {"quick": 900, "thorough": 14400}[tier]
    scratch = tempfile.mkdtemp(prefix=f"verif-{prop}-", dir="/dev/shm" if os.path.isdir("/dev/shm") else None)
    harness_problems: list[str] = []
    try:
        procs = []
        for k in range(SHARDS):
            out = os.path.join(scratch, f"shard{k}.jsonl")
            procs.append((k, out, spawn(
                ["--prop", prop, "--tier", tier, "--seed", str(verif_seed), "--shard", str(k), "--out", out],
                hashseed_for(mod, k), tmo, stdout=subprocess.DEVNULL, stderr=subprocess.PIPE, text=True)))
        recs = []
        for k, out, p in procs:
            _, err = p.communicate()
            done = False
            if os.path.exists(out):
                with open(out) as f:
                    for line in f:
                        try:
                            r = json.loads(line)
                        except Exception:
                            continue
                        if "shard_done" in r:
                            done = True
                        else:
                            r["shard"] = k
                            recs.append(r)
            if p.returncode != 0 or not done:
                harness_problems.append(f"shard {k} exit={p.returncode} done={done} stderr={err[-2000:]}")
        recs.sort(key=lambda r: r["i"])
        for r in recs:
            if "harness_error" in r:
                harness_problems.append(f"run {r['i']} seed {r['seed']}: {r['harness_error'][-1500:]}")

        # ---- violations: one representative per signature, minimised -------------
        findings = load_findings(prop)
        by_sig: dict[str, dict] = {}
        known_seen: list[str] = []
        n_viol = 0
        n_known = 0
        for r in recs:
            if "violation" not in r:
                continue
            n_viol += 1
            hit = match_finding(mod, findings, r["program"], r["violation"])
            if hit is not None:
                n_known += 1
                line = f"KNOWN-FINDING: property={prop} {hit['id']}: {hit['what']}"
                if line not in known_seen:
                    known_seen.append(line)
                continue
            by_sig.setdefault(signature(r["violation"]), r)
        reported: list[tuple[str, str]] = []
        rdir = os.environ.get("VERIF_REPLAY_DIR") or os.path.join(VERIF, "replays")
        os.makedirs(rdir, exist_ok=True)
        sigs = sorted(by_sig)[: int(os.environ.get("VERIF_MAX_SIGS", "12"))]
        jobs = []
        for sig in sigs:
            r = by_sig[sig]
            job = os.path.join(scratch, "shrink-" + hashlib.sha1(sig.encode()).hexdigest()[:10] + ".json")
            with open(job, "w") as f:
                json.dump({"program": r["program"], "signature": sig,
                           "budget": int(os.environ.get("VERIF_SHRINK_BUDGET", "300"))}, f)
            hs = hashseed_for(mod, r["shard"])
            jobs.append((sig, r, job, hs, spawn(["--prop", prop, "--shrink", job], hs, 1800,
                                                 stdout=subprocess.DEVNULL, stderr=subprocess.PIPE, text=True)))
        for sig, r, job, hs, p in jobs:
            _, err = p.communicate()
            if p.returncode != 0 or not os.path.exists(job + ".out"):
                harness_problems.append(f"shrink of {sig} failed exit={p.returncode}: {err[-1500:]}")
                continue
            with open(job + ".out") as f:
                sh = json.load(f)
            program, viol = sh["program"], sh["violation"]
            if not viol or signature(viol) != sig:
                harness_problems.append(f"shrunk program for {sig} lost its signature")
                continue
            name = f"{prop}-{r['seed']:016x}-" + hashlib.sha1(sig.encode()).hexdigest()[:8] + ".json"
            rpath = os.path.join(rdir, name)
            doc = {
                "property": prop,
                "signature": sig,
                "violation": viol,
                "seed": r["seed"],
                "index": r["i"],
                "verif_seed": verif_seed,
                "tier": tier,
                "pythonhashseed": hs,
                "digest": sh["digest"],
                "shrink_executions": sh.get("shrink_executions"),
                "program": program,
            }
            with open(rpath, "w") as f:
                json.dump(doc, f, sort_keys=True, indent=1)
            rc, out, err = run_json(["--prop", prop, "--exec", rpath], hs)
            ok = False
            try:
                rep = json.loads(out.strip().splitlines()[-1])
                ok = rep.get("signature") == sig and rep.get("digest") == doc["digest"]
            except Exception:
                rep = None
            if not ok:
                harness_problems.append(f"replay of {rpath} did not reproduce {sig}: {out[-500:]} {err[-500:]}")
                continue
            reported.append((sig, rpath))

        # ---- evidence ---------------------------------------------------------
        wall = time.time() - t0
        faults, probes, states = {}, {}, set()
        nontrivial_digests = set()
        configs = {}
        envs: dict = {}
        steps_total = 0
        samples = []
        slowest = max(recs, key=lambda r: r.get("wall_ms", 0)) if recs else {}
        for r in recs:
            for k, v in r.get("faults", {}).items():
                faults[k] = faults.get(k, 0) + v
            for k, v in r.get("probes", {}).items():
                probes[k] = probes.get(k, 0) + v
            for s in r.get("states", []):
                states.add(s if isinstance(s, str) else json.dumps(s, sort_keys=True))
            if r.get("nontrivial") and r.get("digest"):
                nontrivial_digests.add(r["digest"])
            configs[r.get("config", "fault_free")] = configs.get(r.get("config", "fault_free"), 0) + 1
            envs[r.get("env", "?")] = envs.get(r.get("env", "?"), 0) + 1
            steps_total += r.get("steps", 0)
            if "sample" in r and len(samples) < 3:
                samples.append(r["sample"])
        if not samples:
            samples = [r["program"] for r in recs if "program" in r][:1] or [{"note": "no sample"}]
        evidence = {
            "property_id": prop,
            "tier": tier,
            "seed": verif_seed,
            "level": mod.LEVEL,
            "coverage": {
                "evaluations": len(recs),
                "distinct_nontrivial": len(nontrivial_digests),
                "rule": mod.RULE,
                "samples": samples,
                "runs_planned": n_runs,
                "runs_per_hour": int(len(recs) / max(wall, 1e-6) * 3600),
                "steps_total": steps_total,
                "slowest_run": {"index": slowest.get("i"), "wall_ms": slowest.get("wall_ms"),
                                "watchdog_s": int(getattr(mod, "RUN_WALL_S", RUN_WALL_S))},
                "fault_fired": dict(sorted(faults.items())),
                "probes": dict(sorted(probes.items())),
                "distinct_states": len(states),
                "distinct_states_measure": getattr(mod, "STATE_MEASURE", "distinct abstract states recorded by the runs"),
                "configs": configs,
                "process_environments": dict(sorted(envs.items())),
                "components": mod.COMPONENTS,
                "simulated_time": "not applicable - no clock is read by any claimed property; logical steps are counted instead",
                "violating_runs": n_viol,
                "violating_runs_explained_by_known_findings": n_known,
                "signatures": sorted(by_sig),
                "known_findings_seen": known_seen,
                "replays": [p for _, p in reported],
            },
            "assumptions": list(getattr(mod, "ASSUMPTIONS", [])),
            "wall_s": round(wall, 2),
            "violations": len(reported),
        }
        from simkit.evidence import validate_evidence

        problems = validate_evidence(evidence)
        if problems:
            harness_problems.append("evidence invalid: " + "; ".join(problems))
        # sensitivity runs against a deliberately broken tree (tools/try_mutant.sh, tools/verify_seed.sh) set
        # VERIF_EVIDENCE_DIR so that they never overwrite the evidence of the real tree
        evdir = os.environ.get("VERIF_EVIDENCE_DIR") or os.path.join(VERIF, "evidence")
        os.makedirs(evdir, exist_ok=True)
        with open(os.path.join(evdir, f"{prop}.json"), "w") as f:
            json.dump(evidence, f, sort_keys=True, indent=1)

        for line in known_seen:
            print(line)
        for sig, rpath in reported:
            print(f"VIOLATION property={prop} replay={rpath}")
            print(f"  signature={sig}")
        if len(recs) != n_runs:
            harness_problems.append(f"only {len(recs)} of {n_runs} runs reported")
        print(f"SUMMARY property={prop} tier={tier} seed={verif_seed} runs={len(recs)} "
              f"distinct_nontrivial={len(nontrivial_digests)} violating_runs={n_viol} "
              f"new_violations={len(reported)} known={len(known_seen)} wall_s={wall:.1f}")
        if reported:
            return 1
        if harness_problems:
            for h in harness_problems:
                print("HARNESS:", h, file=sys.stderr)
            return 2
        return 0
    finally:
        import shutil

        shutil.rmtree(scratch, ignore_errors=True)


def cmd_replay(prop: str, path: str) -> int:
    with open(path) as f:
        doc = json.load(f)
    hs = str(doc.get("pythonhashseed", "0"))
    rc, out, err = run_json(["--prop", prop, "--exec", os.path.abspath(path)], hs)
    try:
        rep = json.loads(out.strip().splitlines()[-1])
    except Exception:
        print("HARNESS: replay produced no result", err[-2000:], file=sys.stderr)
        return 2
    if rep.get("harness_error"):
        print("HARNESS:", rep["harness_error"], file=sys.stderr)
        return 2
    if rep.get("signature"):
        same = rep["signature"] == doc.get("signature")
        print(f"VIOLATION property={prop} replay={path}")
        print(f"  signature={rep['signature']} same_as_recorded={same} digest_same={rep.get('digest') == doc.get('digest')}")
        print("  detail=" + json.dumps(rep["violation"], sort_keys=True)[:2000])
        return 1
    print(f"replay of {path}: no violation (property holds on this program)")
    return 0


def main(argv: list[str]) -> int:
    import argparse

    ap = argparse.ArgumentParser()
    ap.add_argument("prop_pos", nargs="?")
    ap.add_argument("--prop")
    ap.add_argument("--tier", default=os.environ.get("VERIF_TIER", "quick"))
    ap.add_argument("--seed", type=int, default=int(os.environ.get("VERIF_SEED", "0") or 0))
    ap.add_argument("--shard", type=int)
    ap.add_argument("--out")
    ap.add_argument("--shrink")
    ap.add_argument("--exec", dest="exec_")
    ap.add_argument("--replay")
    ap.add_argument("--digests", nargs=3, type=int, metavar=("START", "COUNT", "STEP"))
    a = ap.parse_args(argv)
    prop = (a.prop or a.prop_pos or "").upper()
    if not prop:
        ap.error("property id required")
    if a.tier not in ("quick", "thorough"):
        a.tier = "quick"
    if a.shard is not None:
        return cmd_shard(prop, a.tier, a.seed, a.shard, a.out)
    if a.digests:
        return cmd_digests(prop, a.tier, a.seed, *a.digests)
    if a.shrink:
        return cmd_shrink(prop, a.shrink)
    if a.exec_:
        return cmd_exec(prop, a.exec_)
    if a.replay:
        return cmd_replay(prop, a.replay)
    return parent(prop, a.tier, a.seed)


if __name__ == "__main__":
    sys.exit(main(sys.argv[1:]))
