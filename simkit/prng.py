"""Counter-free SplitMix64 PRNG with named sub-streams.

No `random`, no `numpy.random`, no `hash()`: the sequence is a pure function
of the integer seed and is identical under every PYTHONHASHSEED.
"""

from __future__ import annotations

MASK = (1 << 64) - 1


def splitmix64(x: int) -> int:
    x = (x + 0x9E3779B97F4A7C15) & MASK
    z = x
    z = ((z ^ (z >> 30)) * 0xBF58476D1CE4E5B9) & MASK
    z = ((z ^ (z >> 27)) * 0x94D049BB133111EB) & MASK
    return z ^ (z >> 31)


def fnv1a64(s: str) -> int:
    h = 0xCBF29CE484222325
    for b in s.encode("utf-8"):
        h ^= b
        h = (h * 0x100000001B3) & MASK
    return h


def run_seed(verif_seed: int, prop: str, index: int) -> int:
    return splitmix64((verif_seed & MASK) ^ fnv1a64(prop) ^ splitmix64(index))


class Prng:
    __slots__ = ("seed", "state", "draws")

    def __init__(self, seed: int):
        self.seed = seed & MASK
        self.state = self.seed
        self.draws = 0

    def stream(self, label: str) -> "Prng":
        """Independent child stream; adding draws elsewhere never shifts it."""
        return Prng(splitmix64(self.seed ^ fnv1a64(label)))

    def u64(self) -> int:
        self.state = (self.state + 0x9E3779B97F4A7C15) & MASK
        z = self.state
        z = ((z ^ (z >> 30)) * 0xBF58476D1CE4E5B9) & MASK
        z = ((z ^ (z >> 27)) * 0x94D049BB133111EB) & MASK
        self.draws += 1
        return z ^ (z >> 31)

    def random(self) -> float:
        return (self.u64() >> 11) / float(1 << 53)

    def below(self, n: int) -> int:
        """Uniform integer in [0, n)."""
        if n <= 0:
            raise ValueError("below(n) needs n > 0")
        return self.u64() % n

    def randint(self, a: int, b: int) -> int:
        """Uniform integer in [a, b]."""
        return a + self.below(b - a + 1)

    def chance(self, p: float) -> bool:
        return self.random() < p

    def choice(self, seq):
        return seq[self.below(len(seq))]

    def weighted(self, pairs):
        """pairs: [(item, weight), ...]"""
        total = sum(w for _, w in pairs)
        x = self.random() * total
        acc = 0.0
        for item, w in pairs:
            acc += w
            if x < acc:
                return item
        return pairs[-1][0]

    def shuffle(self, lst: list) -> list:
        for i in range(len(lst) - 1, 0, -1):
            j = self.below(i + 1)
            lst[i], lst[j] = lst[j], lst[i]
        return lst

    def permutation(self, n: int) -> list[int]:
        return self.shuffle(list(range(n)))

    def sample(self, seq, k: int) -> list:
        idx = self.permutation(len(seq))[:k]
        return [seq[i] for i in idx]

    def uniform(self, a: float, b: float) -> float:
        return a + (b - a) * self.random()
