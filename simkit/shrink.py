"""Generic candidate generators for delta debugging of JSON programs."""

from __future__ import annotations

import copy
from typing import Any, Iterator


def _get(d, path):
    for k in path:
        d = d[k]
    return d


def _set(d, path, value):
    for k in path[:-1]:
        d = d[k]
    d[path[-1]] = value


def with_value(program: dict, path: list, value) -> dict:
    p = copy.deepcopy(program)
    _set(p, path, value)
    return p


def drop_from_list(program: dict, path: list, min_len: int = 0) -> Iterator[dict]:
    """ddmin-style: drop halves, quarters, ..., single elements of the list at path."""
    lst = _get(program, path)
    n = len(lst)
    if n <= min_len:
        return
    chunk = max(1, n // 2)
    while chunk >= 1:
        start = 0
        while start < n:
            new = lst[:start] + lst[start + chunk:]
            if len(new) >= min_len and len(new) < n:
                yield with_value(program, path, new)
            start += chunk
        chunk //= 2


def simplify_scalar(program: dict, path: list, targets: list) -> Iterator[dict]:
    cur = _get(program, path)
    for t in targets:
        if t != cur:
            yield with_value(program, path, t)
            return


def shrink_int_toward(program: dict, path: list, target: int = 0) -> Iterator[dict]:
    cur = _get(program, path)
    if not isinstance(cur, int) or cur == target:
        return
    yield with_value(program, path, target)
    mid = (cur + target) // 2
    if mid not in (cur, target):
        yield with_value(program, path, mid)
    step = cur - 1 if cur > target else cur + 1
    if step not in (mid, target):
        yield with_value(program, path, step)
