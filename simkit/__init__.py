"""simkit: a small deterministic simulator for a single-process library.

One integer (the run seed) decides every generated operation, stream schedule,
directory order, pool completion order, RNG draw and fault of a run.
"""
