"""Minimal validator for /root/.vp/EVIDENCE.schema.json (no jsonschema in /venv).

Checks exactly the constraints of the schema that apply to the two levels used
here (exploration, fault_enumeration); if python3-vt with jsonschema is on PATH
the real schema is applied as well.
"""

from __future__ import annotations

import json
import os
import shutil
import subprocess

LEVELS = ["exploration", "fault_enumeration", "model_checking", "proof", "translation_validation", "other"]


def validate_evidence(ev: dict) -> list[str]:
    bad: list[str] = []
    for k in ("property_id", "tier", "seed", "level", "coverage", "wall_s"):
        if k not in ev:
            bad.append(f"missing {k}")
    if bad:
        return bad
    if not isinstance(ev["property_id"], str):
        bad.append("property_id not a string")
    if ev["tier"] not in ("quick", "thorough"):
        bad.append("tier")
    if not isinstance(ev["seed"], int) or isinstance(ev["seed"], bool):
        bad.append("seed not integer")
    if ev["level"] not in LEVELS:
        bad.append("level")
    if not isinstance(ev["wall_s"], (int, float)):
        bad.append("wall_s")
    cov = ev["coverage"]
    if not isinstance(cov, dict):
        return bad + ["coverage not object"]
    if ev["level"] in ("exploration", "fault_enumeration"):
        for k in ("evaluations", "distinct_nontrivial", "rule", "samples"):
            if k not in cov:
                bad.append(f"coverage.{k} missing")
        if not bad:
            if not isinstance(cov["evaluations"], int) or cov["evaluations"] < 1:
                bad.append("coverage.evaluations < 1")
            if not isinstance(cov["distinct_nontrivial"], int) or cov["distinct_nontrivial"] < 2:
                bad.append("coverage.distinct_nontrivial < 2")
            if not isinstance(cov["rule"], str):
                bad.append("coverage.rule")
            if not isinstance(cov["samples"], list) or len(cov["samples"]) < 1:
                bad.append("coverage.samples")
    if "assumptions" in ev and not all(isinstance(x, str) for x in ev["assumptions"]):
        bad.append("assumptions")
    if "violations" in ev and not isinstance(ev["violations"], int):
        bad.append("violations")
    if bad:
        return bad
    schema = "/root/.vp/EVIDENCE.schema.json"
    vt = shutil.which("python3-vt")
    if vt and os.path.exists(schema):
        try:
            p = subprocess.run(
                [vt, "-c",
                 "import sys,json,jsonschema;"
                 "s=json.load(open(sys.argv[1]));d=json.load(sys.stdin);"
                 "errs=[e.message[:200] for e in jsonschema.Draft202012Validator(s).iter_errors(d)];"
                 "print(json.dumps(errs))", schema],
                input=json.dumps(ev), capture_output=True, text=True, timeout=60)
            if p.returncode == 0:
                bad.extend(json.loads(p.stdout.strip() or "[]"))
        except Exception:
            pass  # optional second opinion only
    return bad
