"""SimPool: a deterministic stand-in for concurrent.futures.ProcessPoolExecutor.

* submit() pickles (fn, args, kwargs) - an unpicklable task fails the way it does
  with the real pool - and queues the task; nothing runs yet.
* Tasks run, in this process and one at a time, only when the pool is pumped:
  by Future.result()/exception() on an unfinished future, by shutdown(wait=True)
  (hence by leaving a `with` block) or by the patched as_completed()/wait().
* WHICH queued task completes next is decided by the schedule of the run
  (a list of integers from the program): among the first `max_workers` queued
  tasks, the one at position schedule[k] % window is executed. One seed = one
  completion order.
* Results and exceptions cross the "process boundary" pickled.

Executor.map is inherited from the standard library, so code that relies on
"map yields in submission order whatever the completion order" is exercised.
"""

from __future__ import annotations

import concurrent.futures as cf
import pickle
from concurrent.futures import Executor, Future


class SimFuture(Future):
    def __init__(self, pool: "SimPool"):
        super().__init__()
        self._pool = pool
        self.seq = None  # completion sequence number

    def result(self, timeout=None):
        if not self.done():
            self._pool._pump_until(self)
        return super().result(timeout=0)

    def exception(self, timeout=None):
        if not self.done():
            self._pool._pump_until(self)
        return super().exception(timeout=0)


class SimPoolState:
    """Shared by all pools of one run: the schedule and the observation log."""

    def __init__(self, schedule=None, world=None):
        self.schedule = list(schedule or [])
        self.k = 0
        self.completed = 0
        self.world = world
        self.pools_created = 0
        self.out_of_order = 0
        self.max_workers_seen: list = []

    def pick(self, window: int) -> int:
        if not self.schedule:
            return 0
        v = self.schedule[self.k % len(self.schedule)]
        self.k += 1
        return v % window


_STATE: SimPoolState | None = None


class SimPool(Executor):
    def __init__(self, max_workers=None, mp_context=None, initializer=None, initargs=(), **kwargs):
        if max_workers is not None and max_workers <= 0:
            raise ValueError("max_workers must be greater than 0")
        self._max_workers = max_workers or 4
        self._queue: list[tuple[SimFuture, bytes, int]] = []
        self._shutdown = False
        self._submitted = 0
        self._state = _STATE if _STATE is not None else SimPoolState()
        self._state.pools_created += 1
        self._state.max_workers_seen.append(max_workers)
        # initializer/initargs reach real workers by inheritance (fork), not by pickling; nothing
        # to run here: there are no worker processes whose state it would set up

    def submit(self, fn, /, *args, **kwargs):
        if self._shutdown:
            raise RuntimeError("cannot schedule new futures after shutdown")
        fut = SimFuture(self)
        try:
            blob = pickle.dumps((fn, args, kwargs))
        except Exception as e:  # same surface as the real pool: the future fails
            fut.set_running_or_notify_cancel()
            fut.set_exception(e)
            return fut
        self._queue.append((fut, blob, self._submitted))
        self._submitted += 1
        return fut

    # -- scheduler ---------------------------------------------------------
    def _run_one(self) -> None:
        window = min(self._max_workers, len(self._queue))
        pos = self._state.pick(window)
        fut, blob, order = self._queue.pop(pos)
        if pos != 0:
            self._state.out_of_order += 1
            if self._state.world is not None:
                self._state.world.faults["pool_completion_out_of_order"] += 1
        if not fut.set_running_or_notify_cancel():
            return
        try:
            fn, args, kwargs = pickle.loads(blob)
            res = fn(*args, **kwargs)
            res = pickle.loads(pickle.dumps(res))
        except BaseException as e:  # noqa: BLE001 - delivered through the future
            fut.seq = self._state.completed
            self._state.completed += 1
            fut.set_exception(e)
        else:
            fut.seq = self._state.completed
            self._state.completed += 1
            fut.set_result(res)

    def _pump_until(self, fut: SimFuture) -> None:
        while not fut.done() and self._queue:
            self._run_one()

    def _pump_all(self) -> None:
        while self._queue:
            self._run_one()

    def shutdown(self, wait=True, *, cancel_futures=False):
        self._shutdown = True
        if cancel_futures:
            for fut, _, _ in self._queue:
                fut.cancel()
            self._queue.clear()
        # a real pool finishes queued work even with wait=False; do it now so that
        # no future stays pending forever in a world without background threads
        self._pump_all()


def _sim_as_completed(fs, timeout=None):
    fs = list(fs)
    for f in fs:
        if isinstance(f, SimFuture) and not f.done():
            f._pool._pump_all()
    sim = sorted((f for f in fs if isinstance(f, SimFuture)), key=lambda f: (f.seq is None, f.seq))
    seen = set()
    for f in sim:
        if id(f) not in seen:
            seen.add(id(f))
            yield f
    rest = [f for f in fs if not isinstance(f, SimFuture)]
    if rest:
        yield from _REAL["as_completed"](rest, timeout)


def _sim_wait(fs, timeout=None, return_when=cf.ALL_COMPLETED):
    fs = list(fs)
    for f in fs:
        if isinstance(f, SimFuture) and not f.done():
            f._pool._pump_all()
    return _REAL["wait"](fs, timeout, return_when)


_REAL: dict = {}


def install(state: SimPoolState) -> None:
    """Replace the process pool seen by the library (and by tqdm.contrib.concurrent)."""
    global _STATE
    import swcgeom.core.population as popmod

    _STATE = state
    _REAL["cf.PPE"] = cf.ProcessPoolExecutor  # forces the lazy import
    _REAL["pop.PPE"] = getattr(popmod, "ProcessPoolExecutor", None)
    _REAL["as_completed"] = cf.as_completed
    _REAL["wait"] = cf.wait
    cf.ProcessPoolExecutor = SimPool
    if _REAL["pop.PPE"] is not None:
        popmod.ProcessPoolExecutor = SimPool
    cf.as_completed = _sim_as_completed
    cf.wait = _sim_wait
    # names bound with `from concurrent.futures import ...` inside any loaded swcgeom module: the real
    # as_completed()/wait() would block for ever on futures that no background thread completes
    import sys

    swapped = []
    for name, mod in list(sys.modules.items()):
        if mod is None or not (name == "swcgeom" or name.startswith("swcgeom.")):
            continue
        for attr, real_key, sim in (("ProcessPoolExecutor", "cf.PPE", SimPool), ("as_completed", "as_completed", _sim_as_completed),
                                    ("wait", "wait", _sim_wait)):
            if getattr(mod, attr, None) is _REAL[real_key]:
                setattr(mod, attr, sim)
                swapped.append((mod, attr, _REAL[real_key]))
    _REAL["swapped"] = swapped
    try:
        import tqdm

        _REAL["tqdm.monitor"] = tqdm.tqdm.monitor_interval
        tqdm.tqdm.monitor_interval = 0
    except Exception:
        pass


def uninstall() -> None:
    global _STATE
    import swcgeom.core.population as popmod

    if "cf.PPE" in _REAL:
        for mod, attr, real in _REAL.get("swapped", []):
            setattr(mod, attr, real)
        cf.ProcessPoolExecutor = _REAL["cf.PPE"]
        if _REAL["pop.PPE"] is not None:
            popmod.ProcessPoolExecutor = _REAL["pop.PPE"]
        cf.as_completed = _REAL["as_completed"]
        cf.wait = _REAL["wait"]
        try:
            import tqdm

            tqdm.tqdm.monitor_interval = _REAL.get("tqdm.monitor", 10)
        except Exception:
            pass
    _STATE = None
    _REAL.clear()
