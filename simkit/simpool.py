"""SimPool: a deterministic stand-in for concurrent.futures.ProcessPoolExecutor.

* submit() pickles (fn, args, kwargs) - an unpicklable task fails the way it does
  with the real pool - and queues the task; nothing runs yet.
* Tasks run, in this process and one at a time, only when the pool is pumped:
  by Future.result()/exception() on an unfinished future, by shutdown(wait=True)
  (hence by leaving a `with` block) or by the patched as_completed()/wait().
* WHICH queued task completes next is decided by the schedule of the run
  (a list of integers from the program): among the first `max_workers` queued
  tasks, the one at position schedule[k] % window is executed. One seed = one
  completion order.
* Results and exceptions cross the "process boundary" pickled.

* The process boundary is real in one more respect: the tasks of a pool run in ONE
  worker process forked from the caller when the pool receives its first task, as
  the workers of a real pool are. The worker therefore sees the caller's state as
  it was at that moment (a pool kept alive across calls answers with a stale
  image), and whatever a task changes stays in the worker. Which task the worker
  executes next is still the scheduler's decision, so a seed is one execution.

Executor.map is inherited from the standard library, so code that relies on
"map yields in submission order whatever the completion order" is exercised.
"""

from __future__ import annotations

import concurrent.futures as cf
import os
import pickle
import struct
from concurrent.futures import Executor, Future
from concurrent.futures.process import BrokenProcessPool


class SimFuture(Future):
    def __init__(self, pool: "SimPool"):
        super().__init__()
        self._pool = pool
        self.seq = None  # completion sequence number

    def result(self, timeout=None):
        if not self.done():
            self._pool._pump_until(self)
        return super().result(timeout=0)

    def exception(self, timeout=None):
        if not self.done():
            self._pool._pump_until(self)
        return super().exception(timeout=0)


class SimPoolState:
    """Shared by all pools of one run: the schedule and the observation log."""

    def __init__(self, schedule=None, world=None):
        self.schedule = list(schedule or [])
        self.k = 0
        self.completed = 0
        self.world = world
        self.pools_created = 0
        self.out_of_order = 0
        self.max_workers_seen: list = []
        self.workers: list = []  # live worker processes (pid, read fd, write fd) of all pools of the run
        self.stale_worker_tasks = 0

    def pick(self, window: int) -> int:
        if not self.schedule:
            return 0
        v = self.schedule[self.k % len(self.schedule)]
        self.k += 1
        return v % window


_STATE: SimPoolState | None = None


class SimPool(Executor):
    def __init__(self, max_workers=None, mp_context=None, initializer=None, initargs=(), **kwargs):
        if max_workers is not None and max_workers <= 0:
            raise ValueError("max_workers must be greater than 0")
        self._max_workers = max_workers or 4
        self._queue: list[tuple[SimFuture, bytes, int]] = []
        self._shutdown = False
        self._submitted = 0
        self._state = _STATE if _STATE is not None else SimPoolState()
        self._state.pools_created += 1
        self._state.max_workers_seen.append(max_workers)
        self._initializer, self._initargs = initializer, initargs
        self._worker = None  # (pid, rfd, wfd) once the first task arrived

    def submit(self, fn, /, *args, **kwargs):
        if self._shutdown:
            raise RuntimeError("cannot schedule new futures after shutdown")
        fut = SimFuture(self)
        try:
            blob = pickle.dumps((fn, args, kwargs))
        except Exception as e:  # same surface as the real pool: the future fails
            fut.set_running_or_notify_cancel()
            fut.set_exception(e)
            return fut
        self._queue.append((fut, blob, self._submitted))
        self._submitted += 1
        return fut

    # -- the worker process ------------------------------------------------
    def _start_worker(self) -> None:
        c2w_r, c2w_w = os.pipe()
        w2c_r, w2c_w = os.pipe()
        pid = os.fork()
        if pid == 0:
            try:
                keep = {c2w_r, w2c_w}
                for fd in range(3, 512):
                    if fd not in keep:
                        try:
                            os.close(fd)
                        except OSError:
                            pass
                if self._initializer is not None:
                    self._initializer(*self._initargs)
                while True:
                    head = _read_exact(c2w_r, 8)
                    if head is None:
                        break
                    blob = _read_exact(c2w_r, struct.unpack("<Q", head)[0])
                    try:
                        fn, args, kwargs = pickle.loads(blob)
                        out = pickle.dumps(("ok", fn(*args, **kwargs)))
                    except BaseException as e:  # noqa: BLE001
                        try:
                            out = pickle.dumps(("err", e))
                        except Exception:  # noqa: BLE001
                            out = pickle.dumps(("err", RuntimeError(f"{type(e).__name__}: {e}")))
                    os.write(w2c_w, struct.pack("<Q", len(out)))
                    _write_all(w2c_w, out)
            finally:
                os._exit(0)
        os.close(c2w_r)
        os.close(w2c_w)
        self._worker = (pid, w2c_r, c2w_w)
        self._state.workers.append(self._worker)

    def _remote(self, blob: bytes):
        if self._worker is None:
            self._start_worker()
        pid, rfd, wfd = self._worker
        try:
            os.write(wfd, struct.pack("<Q", len(blob)))
            _write_all(wfd, blob)
            head = _read_exact(rfd, 8)
            data = _read_exact(rfd, struct.unpack("<Q", head)[0]) if head is not None else None
        except OSError:
            data = None
        if data is None:
            raise BrokenProcessPool("the simulated worker process terminated abruptly")
        kind, val = pickle.loads(data)
        if kind == "err":
            raise val
        return val

    def _stop_worker(self) -> None:
        if self._worker is None:
            return
        _reap(self._worker)
        if self._worker in self._state.workers:
            self._state.workers.remove(self._worker)
        self._worker = None

    # -- scheduler ---------------------------------------------------------
    def _run_one(self) -> None:
        window = min(self._max_workers, len(self._queue))
        pos = self._state.pick(window)
        fut, blob, order = self._queue.pop(pos)
        if pos != 0:
            self._state.out_of_order += 1
            if self._state.world is not None:
                self._state.world.faults["pool_completion_out_of_order"] += 1
        if not fut.set_running_or_notify_cancel():
            return
        try:
            res = self._remote(blob)
        except BaseException as e:  # noqa: BLE001 - delivered through the future
            fut.seq = self._state.completed
            self._state.completed += 1
            fut.set_exception(e)
        else:
            fut.seq = self._state.completed
            self._state.completed += 1
            fut.set_result(res)

    def _pump_until(self, fut: SimFuture) -> None:
        while not fut.done() and self._queue:
            self._run_one()

    def _pump_all(self) -> None:
        while self._queue:
            self._run_one()

    def shutdown(self, wait=True, *, cancel_futures=False):
        self._shutdown = True
        if cancel_futures:
            for fut, _, _ in self._queue:
                fut.cancel()
            self._queue.clear()
        # a real pool finishes queued work even with wait=False; do it now so that
        # no future stays pending forever in a world without background threads
        self._pump_all()
        self._stop_worker()


def _read_exact(fd: int, n: int):
    buf = b""
    while len(buf) < n:
        chunk = os.read(fd, n - len(buf))
        if not chunk:
            return None
        buf += chunk
    return buf


def _write_all(fd: int, data: bytes) -> None:
    view = memoryview(data)
    while len(view):
        k = os.write(fd, view[:65536])
        view = view[k:]


def _reap(worker) -> None:
    pid, rfd, wfd = worker
    for fd in (wfd, rfd):
        try:
            os.close(fd)
        except OSError:
            pass
    try:
        os.waitpid(pid, 0)
    except (ChildProcessError, OSError):
        pass


def _sim_as_completed(fs, timeout=None):
    fs = list(fs)
    for f in fs:
        if isinstance(f, SimFuture) and not f.done():
            f._pool._pump_all()
    sim = sorted((f for f in fs if isinstance(f, SimFuture)), key=lambda f: (f.seq is None, f.seq))
    seen = set()
    for f in sim:
        if id(f) not in seen:
            seen.add(id(f))
            yield f
    rest = [f for f in fs if not isinstance(f, SimFuture)]
    if rest:
        yield from _REAL["as_completed"](rest, timeout)


def _sim_wait(fs, timeout=None, return_when=cf.ALL_COMPLETED):
    fs = list(fs)
    for f in fs:
        if isinstance(f, SimFuture) and not f.done():
            f._pool._pump_all()
    return _REAL["wait"](fs, timeout, return_when)


_REAL: dict = {}


def install(state: SimPoolState) -> None:
    """Replace the process pool seen by the library (and by tqdm.contrib.concurrent)."""
    global _STATE
    import swcgeom.core.population as popmod

    _STATE = state
    _REAL["cf.PPE"] = cf.ProcessPoolExecutor  # forces the lazy import
    _REAL["pop.PPE"] = getattr(popmod, "ProcessPoolExecutor", None)
    _REAL["as_completed"] = cf.as_completed
    _REAL["wait"] = cf.wait
    cf.ProcessPoolExecutor = SimPool
    if _REAL["pop.PPE"] is not None:
        popmod.ProcessPoolExecutor = SimPool
    cf.as_completed = _sim_as_completed
    cf.wait = _sim_wait
    # names bound with `from concurrent.futures import ...` inside any loaded swcgeom module: the real
    # as_completed()/wait() would block for ever on futures that no background thread completes
    import sys

    swapped = []
    for name, mod in list(sys.modules.items()):
        if mod is None or not (name == "swcgeom" or name.startswith("swcgeom.")):
            continue
        for attr, real_key, sim in (("ProcessPoolExecutor", "cf.PPE", SimPool), ("as_completed", "as_completed", _sim_as_completed),
                                    ("wait", "wait", _sim_wait)):
            if getattr(mod, attr, None) is _REAL[real_key]:
                setattr(mod, attr, sim)
                swapped.append((mod, attr, _REAL[real_key]))
    _REAL["swapped"] = swapped
    try:
        import tqdm

        _REAL["tqdm.monitor"] = tqdm.tqdm.monitor_interval
        tqdm.tqdm.monitor_interval = 0
    except Exception:
        pass


def uninstall() -> None:
    global _STATE
    import swcgeom.core.population as popmod

    if _STATE is not None:
        for wk in list(_STATE.workers):  # pools that were never shut down: their workers end with the run
            _reap(wk)
        _STATE.workers.clear()
    if "cf.PPE" in _REAL:
        for mod, attr, real in _REAL.get("swapped", []):
            setattr(mod, attr, real)
        cf.ProcessPoolExecutor = _REAL["cf.PPE"]
        if _REAL["pop.PPE"] is not None:
            popmod.ProcessPoolExecutor = _REAL["pop.PPE"]
        cf.as_completed = _REAL["as_completed"]
        cf.wait = _REAL["wait"]
        try:
            import tqdm

            tqdm.tqdm.monitor_interval = _REAL.get("tqdm.monitor", 10)
        except Exception:
            pass
    _STATE = None
    _REAL.clear()
