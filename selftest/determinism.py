#!/venv/bin/python
"""Determinism self-test: the same run seeds executed in different fresh interpreters,
under different PYTHONHASHSEED values and different process counts, must produce
identical programs and identical event-log digests.

usage: determinism.py <PROP>[,<PROP>...] [runs-per-prop=200]
"""

import importlib
import os
import subprocess
import sys

VERIF = os.path.dirname(os.path.dirname(os.path.abspath(__file__)))
sys.path.insert(0, VERIF)
PY = "/venv/bin/python"


def batch(prop, hashseeds, nproc, runs, tier="quick"):
    """Run indices 0..runs-1 split over nproc processes; process k gets hashseeds[k % len]."""
    procs = []
    for k in range(nproc):
        env = dict(os.environ, PYTHONHASHSEED=str(hashseeds[k % len(hashseeds)]), PYTHONDONTWRITEBYTECODE="1")
        count = len(range(k, runs, nproc))
        if count == 0:
            continue
        procs.append(subprocess.Popen(
            ["timeout", "900", PY, os.path.join(VERIF, "simkit", "runner.py"), "--prop", prop, "--tier", tier,
             "--digests", str(k), str(count), str(nproc)],
            env=env, cwd=VERIF, stdout=subprocess.PIPE, stderr=subprocess.PIPE, text=True))
    out = {}
    for p in procs:
        o, e = p.communicate()
        if p.returncode != 0:
            raise SystemExit(f"HARNESS: digest worker failed: {e[-2000:]}")
        for line in o.splitlines():
            i, d, ph, sig = line.split()
            out[int(i)] = (d, ph, sig)
    return out


def main():
    props = sys.argv[1].split(",")
    runs = int(sys.argv[2]) if len(sys.argv) > 2 else 200
    bad = 0
    for prop in props:
        mod = importlib.import_module("props." + prop.lower())
        varies = getattr(mod, "HASHSEED_VARIES", False)
        if varies:
            # the hash seed is part of the run identity: shard k always runs under seed k+1
            a = batch(prop, list(range(1, 17)), 16, runs)
            b = batch(prop, list(range(1, 17)), 16, runs)
            c = None
        else:
            a = batch(prop, [0], 16, runs)
            b = batch(prop, [12345, 7, 99], 16, runs)
            c = batch(prop, [4242], 1, min(runs, 60))
        diffs = [i for i in a if a[i] != b.get(i)]
        if c is not None:
            diffs += [i for i in c if c[i] != a.get(i)]
        print(f"{prop}: {len(a)} runs x 2 executions (+{len(c) if c else 0} single-process), mismatches: {len(diffs)}")
        for i in diffs[:5]:
            print("   run", i, a.get(i), b.get(i), c.get(i) if c else None)
        bad += len(diffs)
    return 1 if bad else 0


if __name__ == "__main__":
    sys.exit(main())
